/-
  The JSON and logfmt encoders never emit a control byte: mutual induction over values and attribute
  lists (groups at any depth), core Lean only.
-/
import Logg.Model.Encoder
import Logg.Lemmas.QuoteClean

namespace Logg.Lemmas
open Logg


def noC0B (bs : Bytes) : Bool := bs.all fun c => decide (32 ≤ c.toNat)

theorem noC0_of_B {bs : Bytes} (h : noC0B bs = true) : NoC0 bs := by
  intro c hc
  simp only [noC0B, List.all_eq_true, decide_eq_true_eq] at h
  exact h c hc

/-- the texts a value carries that are written WITHOUT escaping (atoms rendered by the standard library,
    and — outside JSON — keys) contain no control byte -/
def atomsOK (keysRaw : Bool) : (fuel : Nat) → Val → Bool
  | _, .float t => noC0B t
  | _, .complex re im => noC0B re && noC0B im
  | _, .time t => noC0B t
  | _, .tstamp t => noC0B t
  | _, .floats xs => xs.all noC0B
  | _, .complexes xs => xs.all fun p => noC0B p.1 && noC0B p.2
  | _, .times xs => xs.all noC0B
  | 0, .group _ => true
  | fuel + 1, .group items => items.all fun a =>
      match a with
      | none => true
      | some (k, _, v) => (!keysRaw || noC0B k) && atomsOK keysRaw fuel v
  | _, _ => true

def attrOK (keysRaw : Bool) (fuel : Nat) : Attr → Bool
  | none => true
  | some (k, _, v) => (!keysRaw || noC0B k) && atomsOK keysRaw fuel v

theorem noC0_nil : NoC0 [] := by intro c hc; simp at hc
theorem noC0_cons {c : UInt8} {bs : Bytes} (hc : 32 ≤ c.toNat) (h : NoC0 bs) : NoC0 (c :: bs) := by
  intro x hx; rcases List.mem_cons.mp hx with rfl | hx; exact hc; exact h x hx
theorem noC0_single {c : UInt8} (hc : 32 ≤ c.toNat) : NoC0 [c] := noC0_cons hc noC0_nil

theorem decDigits_noC0 (f v : Nat) : NoC0 (decDigits f v) := by
  induction f generalizing v with
  | zero => exact noC0_nil
  | succ f ih =>
    simp only [decDigits]
    split
    · apply noC0_single
      rw [toUInt8_toNat_small _ (by omega)]; omega
    · apply noC0_append (ih _)
      apply noC0_single
      rw [toUInt8_toNat_small _ (by omega)]; omega

theorem natDigits_noC0 (n : Nat) : NoC0 (natDigits n) := decDigits_noC0 _ _
theorem intDigits_noC0 (i : Int) : NoC0 (intDigits i) := by
  unfold intDigits
  split
  · exact noC0_cons (by decide) (natDigits_noC0 _)
  · exact natDigits_noC0 _

theorem joinWith_noC0 (sep : Bytes) (hs : NoC0 sep) : ∀ (xs : List Bytes), (∀ x ∈ xs, NoC0 x) → NoC0 (joinWith sep xs)
  | [], _ => noC0_nil
  | [x], h => by simpa [joinWith] using h x (by simp)
  | x :: y :: rest, h => by
    simp only [joinWith]
    exact noC0_append (noC0_append (h x (by simp)) hs) (joinWith_noC0 sep hs (y :: rest) (fun z hz => h z (by simp [hz])))

theorem bracket_noC0 (xs : List Bytes) (h : ∀ x ∈ xs, NoC0 x) : NoC0 (bracket xs) := by
  unfold bracket
  exact noC0_append (noC0_append (noC0_single (by decide)) (joinWith_noC0 _ (noC0_single (by decide)) xs h)) (noC0_single (by decide))
/-- a no-colour configuration whose `isPrint` is safe -/
structure PlainCfg (c : EncCfg) : Prop where
  noColor : c.fmt ≠ .color
  printSafe : PrintSafe c.isPrint

theorem quote_noC0 (c : EncCfg) (hc : PlainCfg c) (s : Bytes) : NoC0 (c.quote s) := by
  unfold EncCfg.quote quoteValue
  split
  · exact jsonQuote_noC0 s
  · exact clean_noC0 (goQuote_clean _ hc.printSafe s)

theorem jsonQuoted_noC0 (c : EncCfg) (t : Bytes) (h : NoC0 t) : NoC0 (jsonQuoted c t) := by
  unfold jsonQuoted
  split
  · exact noC0_append (noC0_append (noC0_single (by decide)) h) (noC0_single (by decide))
  · exact h

theorem boolText_noC0 (b : Bool) : NoC0 (boolText b) := by
  cases b <;> (intro c hc; simp [boolText] at hc; rcases hc with rfl | rfl | rfl | rfl | rfl <;> decide)

theorem complexText_noC0 (re im : Bytes) (h1 : NoC0 re) (h2 : NoC0 im) : NoC0 (complexText re im) := by
  unfold complexText
  have lp : NoC0 ([40] : Bytes) := noC0_single (by decide)
  have le : NoC0 ([105, 41] : Bytes) := noC0_cons (by decide) (noC0_single (by decide))
  split
  · exact noC0_append (noC0_append (noC0_append lp h1) h2) le
  · exact noC0_append (noC0_append (noC0_append lp h1) h2) le
  · exact noC0_append (noC0_append (noC0_append (noC0_append lp h1) (noC0_single (by decide))) h2) le

theorem timeText_noC0 (c : EncCfg) (t : Bytes) (h : NoC0 t) : NoC0 (timeText c t) := by
  unfold timeText
  split
  · exact noC0_append (noC0_append (noC0_single (by decide)) h) (noC0_single (by decide))
  · exact h

theorem tstampText_noC0 (c : EncCfg) (t : Bytes) (h : NoC0 t) : NoC0 (tstampText c t) := by
  unfold tstampText
  split
  · exact noC0_append (noC0_append (noC0_single (by decide)) h) (noC0_single (by decide))
  · exact noC0_append h (noC0_single (by decide))

theorem all_noC0 {xs : List Bytes} (h : xs.all noC0B = true) : ∀ x ∈ xs, NoC0 x := by
  intro x hx
  rw [List.all_eq_true] at h
  exact noC0_of_B (h x hx)

/-- the dotted-key prefix matters only outside JSON (JSON keys are not dotted) -/
def PfxOK (c : EncCfg) (pfx : Bytes) : Prop := c.json = true ∨ NoC0 pfx

def AttrsStmt (c : EncCfg) (kr : Bool) (fuel : Nat) : Prop :=
  ∀ (as : List Attr) (pfx : Bytes) (skip : Bool), (∀ a ∈ as, attrOK kr fuel a = true) → PfxOK c pfx →
    NoC0 (encAttrs c fuel pfx skip as)

def ValStmt (c : EncCfg) (kr : Bool) (fuel : Nat) : Prop :=
  ∀ (v : Val) (pfx : Bytes), atomsOK kr fuel v = true → PfxOK c pfx → NoC0 (encVal c fuel pfx v)
theorem dedupeAttrs_subset (s : List Attr) : ∀ x ∈ dedupeAttrs s, x ∈ s := by
  induction s with
  | nil => simp [dedupeAttrs]
  | cons a t ih =>
    cases t with
    | nil => simp [dedupeAttrs]
    | cons c rest =>
      intro x hx
      simp only [dedupeAttrs] at hx
      split at hx
      · exact List.mem_cons_of_mem _ (ih x hx)
      · rcases List.mem_cons.mp hx with h | h
        · simp [h]
        · exact List.mem_cons_of_mem _ (ih x h)

theorem prepAttrs_subset (xs : List Attr) : ∀ a ∈ prepAttrs xs, a ∈ xs := by
  intro a ha
  exact (List.mergeSort_perm xs attrLe).mem_iff.mp (dedupeAttrs_subset _ a ha)

theorem dotPrefix_noC0 (k pfx : Bytes) (hk : NoC0 k) (hp : NoC0 pfx) : NoC0 (dotPrefix k pfx) := by
  unfold dotPrefix
  split
  · exact hk
  · exact noC0_append (noC0_append hp (noC0_single (by decide))) hk

/-- attributes from values -/
theorem attrs_of_vals (c : EncCfg) (hc : PlainCfg c) (kr : Bool) (hkr : kr = !c.json) (fuel : Nat)
    (hv : ValStmt c kr fuel) : AttrsStmt c kr fuel := by
  intro as
  induction as with
  | nil => intro pfx skip _ _; simp only [encAttrs]; exact noC0_nil
  | cons a rest ih =>
    intro pfx skip hall hp
    have hrest : ∀ x ∈ rest, attrOK kr fuel x = true := fun x hx => hall x (by simp [hx])
    cases a with
    | none => simp only [encAttrs]; exact ih pfx skip hrest hp
    | some kv =>
      obtain ⟨k, isG, v⟩ := kv
      have ha := hall (some (k, isG, v)) (by simp)
      simp only [attrOK, Bool.and_eq_true, Bool.or_eq_true, Bool.not_eq_true'] at ha
      simp only [encAttrs]
      have hnc : c.noColor = true := by
        unfold EncCfg.noColor
        cases hf : c.fmt
        · decide
        · exact absurd hf hc.noColor
        · decide
      have hcomma : NoC0 c.comma := by unfold EncCfg.comma; split <;> exact noC0_single (by decide)
      have hcolon : NoC0 c.colon := by unfold EncCfg.colon; split <;> exact noC0_single (by decide)
      have hdot : PfxOK c (if c.json = true then k else dotPrefix k pfx) := by
        by_cases hj : c.json = true
        · exact Or.inl hj
        · right
          simp only [hj, Bool.false_eq_true, ↓reduceIte]
          have hkt : kr = true := by simp [hkr, hj]
          have hk : noC0B k = true := by
            rcases ha.1 with h | h
            · rw [hkt] at h; cases h
            · exact h
          rcases hp with h | h
          · exact absurd h hj
          · exact dotPrefix_noC0 k pfx (noC0_of_B hk) h
      have hsep : NoC0 (if skip = true then [] else if c.noColor = true then c.comma else [32] ++ echoColorAndBg c.clr c.bg) := by
        split
        · exact noC0_nil
        · exact hcomma
      have hkey : NoC0 (if (isG && !c.json) = true then []
          else if c.noColor = true then c.key (if c.json = true then k else dotPrefix k pfx) ++ c.colon
          else echoColorAndBg 90 (-1) ++ (if c.json = true then k else dotPrefix k pfx) ++ echoColorAndBg c.clr c.bg ++ c.colon) := by
        split
        · exact noC0_nil
        · apply noC0_append _ hcolon
          unfold EncCfg.key
          split
          · exact jsonQuote_noC0 _
          · rename_i hj
            rcases hdot with h | h
            · exact absurd h hj
            · simpa [hj] using h
      have hval := hv v _ ha.2 hdot
      exact noC0_append (noC0_append (noC0_append hsep hkey) hval) (ih pfx false hrest hp)
theorem plain_noColor (c : EncCfg) (hc : PlainCfg c) : c.noColor = true := by
  unfold EncCfg.noColor
  cases hf : c.fmt
  · decide
  · exact absurd hf hc.noColor
  · decide

/-- scalars (everything but groups), at any fuel -/
theorem scalar_noC0 (c : EncCfg) (hc : PlainCfg c) (kr : Bool) (fuel : Nat) (pfx : Bytes) (v : Val)
    (hok : atomsOK kr fuel v = true) (hng : ∀ items, v ≠ .group items) : NoC0 (encVal c fuel pfx v) := by
  have hq := quote_noC0 c hc
  cases v with
  | nil => cases fuel <;> (simp only [encVal]; split <;> (intro x hx; simp at hx; rcases hx with rfl | rfl | rfl | rfl | rfl <;> decide))
  | str s => cases fuel <;> (simp only [encVal]; exact hq s)
  | bool b => cases fuel <;> (simp only [encVal]; exact boolText_noC0 b)
  | int i => cases fuel <;> (simp only [encVal]; exact intDigits_noC0 i)
  | uint n => cases fuel <;> (simp only [encVal]; exact jsonQuoted_noC0 c _ (natDigits_noC0 n))
  | float t => cases fuel <;> (simp only [encVal]; simp only [atomsOK] at hok; exact jsonQuoted_noC0 c _ (noC0_of_B hok))
  | complex re im =>
    cases fuel <;> (simp only [encVal]; simp only [atomsOK, Bool.and_eq_true] at hok
                    exact jsonQuoted_noC0 c _ (complexText_noC0 _ _ (noC0_of_B hok.1) (noC0_of_B hok.2)))
  | dur t => cases fuel <;> (simp only [encVal]; exact hq t)
  | time t => cases fuel <;> (simp only [encVal]; simp only [atomsOK] at hok; exact timeText_noC0 c _ (noC0_of_B hok))
  | tstamp t => cases fuel <;> (simp only [encVal]; simp only [atomsOK] at hok; exact tstampText_noC0 c _ (noC0_of_B hok))
  | err m =>
    have hnc := hc.noColor
    cases fuel <;> (
      simp only [encVal]
      cases hf : c.fmt
      · simp only []
        exact noC0_append (noC0_append (noC0_append (noC0_append (noC0_single (by decide)) (jsonQuote_noC0 _)) (noC0_single (by decide))) (hq m)) (noC0_single (by decide))
      · exact absurd hf hnc
      · exact hq m)
  | bytes bs => cases fuel <;> (simp only [encVal]; exact hq bs)
  | strs xs => cases fuel <;> (simp only [encVal]; exact bracket_noC0 _ (by intro x hx; simp only [List.mem_map] at hx; obtain ⟨y, _, rfl⟩ := hx; exact hq y))
  | bools xs => cases fuel <;> (simp only [encVal]; exact bracket_noC0 _ (by intro x hx; simp only [List.mem_map] at hx; obtain ⟨y, _, rfl⟩ := hx; exact boolText_noC0 y))
  | ints xs => cases fuel <;> (simp only [encVal]; exact bracket_noC0 _ (by intro x hx; simp only [List.mem_map] at hx; obtain ⟨y, _, rfl⟩ := hx; exact intDigits_noC0 y))
  | uints xs => cases fuel <;> (simp only [encVal]; exact bracket_noC0 _ (by intro x hx; simp only [List.mem_map] at hx; obtain ⟨y, _, rfl⟩ := hx; exact natDigits_noC0 y))
  | floats xs =>
    cases fuel <;> (simp only [encVal]; simp only [atomsOK] at hok
                    exact bracket_noC0 _ (by intro x hx; simp only [List.mem_map] at hx; obtain ⟨y, hy, rfl⟩ := hx; exact jsonQuoted_noC0 c _ (all_noC0 hok y hy)))
  | complexes xs =>
    cases fuel <;> (simp only [encVal]; simp only [atomsOK, List.all_eq_true, Bool.and_eq_true] at hok
                    exact bracket_noC0 _ (by
                      intro x hx; simp only [List.mem_map] at hx; obtain ⟨y, hy, rfl⟩ := hx
                      exact jsonQuoted_noC0 c _ (complexText_noC0 _ _ (noC0_of_B (hok y hy).1) (noC0_of_B (hok y hy).2))))
  | durs xs => cases fuel <;> (simp only [encVal]; exact bracket_noC0 _ (by intro x hx; simp only [List.mem_map] at hx; obtain ⟨y, _, rfl⟩ := hx; exact hq y))
  | times xs =>
    cases fuel <;> (simp only [encVal]; simp only [atomsOK] at hok
                    exact bracket_noC0 _ (by intro x hx; simp only [List.mem_map] at hx; obtain ⟨y, hy, rfl⟩ := hx; exact timeText_noC0 c _ (all_noC0 hok y hy)))
  | fallback t => cases fuel <;> (simp only [encVal]; exact hq t)
  | textm t fb => cases fuel <;> (simp only [encVal]; split <;> exact hq _)
  | group items => exact absurd rfl (hng items)
theorem vals_zero (c : EncCfg) (hc : PlainCfg c) (kr : Bool) : ValStmt c kr 0 := by
  intro v pfx hok _
  by_cases hg : ∃ items, v = .group items
  · obtain ⟨items, rfl⟩ := hg; simp only [encVal]; exact noC0_nil
  · exact scalar_noC0 c hc kr 0 pfx v hok (fun items e => hg ⟨items, e⟩)

theorem vals_succ (c : EncCfg) (hc : PlainCfg c) (kr : Bool) (fuel : Nat) (ha : AttrsStmt c kr fuel) :
    ValStmt c kr (fuel + 1) := by
  intro v pfx hok hp
  by_cases hg : ∃ items, v = .group items
  · obtain ⟨items, rfl⟩ := hg
    simp only [atomsOK, List.all_eq_true] at hok
    have hall : ∀ a ∈ prepAttrs items, attrOK kr fuel a = true := by
      intro a ha'
      have := hok a (prepAttrs_subset items a ha')
      cases a with
      | none => rfl
      | some kv => obtain ⟨k, g, v⟩ := kv; simpa [attrOK] using this
    simp only [encVal]
    split
    · exact noC0_append (noC0_append (noC0_single (by decide)) (ha _ pfx true hall hp)) (noC0_single (by decide))
    · have hnc := plain_noColor c hc
      simp only [hnc, ↓reduceIte, List.append_nil]
      exact ha _ pfx false hall hp
  · exact scalar_noC0 c hc kr (fuel + 1) pfx v hok (fun items e => hg ⟨items, e⟩)

theorem vals_all (c : EncCfg) (hc : PlainCfg c) (kr : Bool) (hkr : kr = !c.json) : ∀ fuel, ValStmt c kr fuel
  | 0 => vals_zero c hc kr
  | fuel + 1 => vals_succ c hc kr fuel (attrs_of_vals c hc kr hkr fuel (vals_all c hc kr hkr fuel))

theorem attrs_all (c : EncCfg) (hc : PlainCfg c) (kr : Bool) (hkr : kr = !c.json) (fuel : Nat) : AttrsStmt c kr fuel :=
  attrs_of_vals c hc kr hkr fuel (vals_all c hc kr hkr fuel)

theorem topAttrs_noC0 (c : EncCfg) (hc : PlainCfg c) (depth : Nat) (attrs : List Attr)
    (hok : ∀ a ∈ attrs, attrOK (!c.json) depth a = true) : NoC0 (encTopAttrs c depth attrs) := by
  unfold encTopAttrs
  have hnc := plain_noColor c hc
  simp only [hnc, ↓reduceIte, List.append_nil]
  apply attrs_all c hc (!c.json) rfl depth _ [] false
  · intro a ha; exact hok a (prepAttrs_subset attrs a ha)
  · exact Or.inr noC0_nil

theorem key_noC0 (c : EncCfg) (k : Bytes) (hk : noC0B k = true) : NoC0 (c.key k) := by
  unfold EncCfg.key
  split
  · exact jsonQuote_noC0 k
  · exact noC0_of_B hk

theorem comma_noC0 (c : EncCfg) : NoC0 c.comma := by unfold EncCfg.comma; split <;> exact noC0_single (by decide)
theorem colon_noC0 (c : EncCfg) : NoC0 c.colon := by unfold EncCfg.colon; split <;> exact noC0_single (by decide)

theorem plainHead_noC0 (c : EncCfg) (hc : PlainCfg c) (levelName : Bytes) (r : Record) (hts : NoC0 r.ts) :
    NoC0 (plainHead c levelName r) := by
  have hq := quote_noC0 c hc
  have hcm := comma_noC0 c
  have hcl := colon_noC0 c
  have q1 : NoC0 ([34] : Bytes) := noC0_single (by decide)
  unfold plainHead
  apply noC0_append
  · apply noC0_append
    · apply noC0_append
      · apply noC0_append
        · split
          · exact noC0_single (by decide)
          · exact noC0_nil
        · exact noC0_append (noC0_append (noC0_append (noC0_append (noC0_append (key_noC0 c _ (by decide)) hcl) q1) hts) q1) hcm
      · split
        · exact noC0_nil
        · apply noC0_append _ hcm
          split
          · exact noC0_append (noC0_append (jsonQuote_noC0 _) (noC0_single (by decide))) (jsonQuote_noC0 _)
          · exact noC0_append (noC0_of_B (by decide)) (hq _)
    · exact noC0_append (noC0_append (noC0_append (key_noC0 c _ (by decide)) hcl) (hq _)) hcm
  · exact noC0_append (noC0_append (key_noC0 c _ (by decide)) hcl) (hq _)

theorem plainCaller_noC0 (c : EncCfg) (hc : PlainCfg c) (r : Record) : NoC0 (plainCaller c r) := by
  have hq := quote_noC0 c hc
  unfold plainCaller
  split
  · exact noC0_nil
  · apply noC0_append (comma_noC0 c)
    split
    · repeat (first | apply noC0_append | exact jsonQuote_noC0 _ | exact hq _ | exact intDigits_noC0 _ | exact noC0_of_B (by decide))
    · repeat (first | apply noC0_append | exact hq _ | exact intDigits_noC0 _ | exact noC0_of_B (by decide))

/-- the whole record without its final line feed -/
theorem plainBody_noC0 (c : EncCfg) (hc : PlainCfg c) (levelName : Bytes) (depth : Nat) (r : Record)
    (hts : NoC0 r.ts) (hattrs : ∀ a ∈ r.attrs, attrOK (!c.json) depth a = true) :
    NoC0 (plainBody c levelName depth r) := by
  unfold plainBody
  apply noC0_append
  · exact noC0_append (noC0_append (plainHead_noC0 c hc levelName r hts) (topAttrs_noC0 c hc depth r.attrs hattrs)) (plainCaller_noC0 c hc r)
  · split
    · exact noC0_single (by decide)
    · exact noC0_nil

end Logg.Lemmas
