/-
  The colored encoder, generically: any predicate on byte strings that is closed under
  concatenation, holds of strings without control bytes and of the SGR sequences `ESC [ n m`
  (n ≥ 0) holds of the attribute part of every colored record (mutual induction over values
  and attribute lists, groups at any depth). Instantiated in Lemmas/Sgr.lean.
-/
import Logg.Lemmas.EncoderClean
namespace Logg.Lemmas
open Logg

/-- a predicate on byte strings that holds of the empty string, is closed under concatenation,
    holds of every string without control bytes and of every SGR sequence the encoder writes -/
structure ColorClosed (P : Bytes → Prop) : Prop where
  nil : P []
  app : ∀ {a b : Bytes}, P a → P b → P (a ++ b)
  plain : ∀ {bs : Bytes}, NoC0 bs → P bs
  esc : ∀ n : Int, 0 ≤ n → P (esc n)

structure ColorCfg (c : EncCfg) : Prop where
  color : c.fmt = .color
  printSafe : PrintSafe c.isPrint
  clr : -1 ≤ c.clr          -- a color number, or -1 for "none"
  bg : -1 ≤ c.bg

theorem color_json (c : EncCfg) (hc : ColorCfg c) : c.json = false := by simp [EncCfg.json, hc.color]
theorem color_noColor (c : EncCfg) (hc : ColorCfg c) : c.noColor = false := by simp [EncCfg.noColor, hc.color]

theorem escReset_eq : escReset = esc 0 := by decide

section
variable {P : Bytes → Prop} (hP : ColorClosed P)
include hP

theorem P_reset : P escReset := by rw [escReset_eq]; exact hP.esc 0 (by decide)

theorem P_echoColor (n : Int) (hn : -1 ≤ n) : P (echoColor n) := by
  unfold echoColor; split
  · rename_i h
    have hne : n ≠ -1 := by simpa using h
    exact hP.esc n (by omega)
  · exact hP.nil

theorem P_echoColorAndBg (a b : Int) (ha : -1 ≤ a) (hb : -1 ≤ b) : P (echoColorAndBg a b) :=
  hP.app (P_echoColor hP a ha) (P_echoColor hP b hb)

theorem P_lit (bs : Bytes) (h : noC0B bs = true) : P bs := hP.plain (noC0_of_B h)

omit hP in
theorem quote_color_noC0 (c : EncCfg) (hc : ColorCfg c) (s : Bytes) : NoC0 (c.quote s) := by
  unfold EncCfg.quote quoteValue
  rw [color_json c hc]
  exact clean_noC0 (goQuote_clean _ hc.printSafe s)

/-- scalars (everything but groups) in colored mode -/
theorem scalar_P (c : EncCfg) (hc : ColorCfg c) (kr : Bool) (fuel : Nat) (pfx : Bytes) (v : Val)
    (hok : atomsOK kr fuel v = true) (hng : ∀ items, v ≠ .group items) : P (encVal c fuel pfx v) := by
  have hq := quote_color_noC0 c hc
  have hj := color_json c hc
  have hn := color_noColor c hc
  cases v with
  | nil => cases fuel <;> (simp only [encVal, hj]; exact P_lit hP _ (by decide))
  | str s => cases fuel <;> (simp only [encVal]; exact hP.plain (hq s))
  | bool b => cases fuel <;> (simp only [encVal]; exact hP.plain (boolText_noC0 b))
  | int i => cases fuel <;> (simp only [encVal]; exact hP.plain (intDigits_noC0 i))
  | uint n => cases fuel <;> (simp only [encVal]; exact hP.plain (jsonQuoted_noC0 c _ (natDigits_noC0 n)))
  | float t => cases fuel <;> (simp only [encVal]; simp only [atomsOK] at hok; exact hP.plain (jsonQuoted_noC0 c _ (noC0_of_B hok)))
  | complex re im =>
    cases fuel <;> (simp only [encVal]; simp only [atomsOK, Bool.and_eq_true] at hok
                    exact hP.plain (jsonQuoted_noC0 c _ (complexText_noC0 _ _ (noC0_of_B hok.1) (noC0_of_B hok.2))))
  | dur t => cases fuel <;> (simp only [encVal]; exact hP.plain (hq t))
  | time t => cases fuel <;> (simp only [encVal]; simp only [atomsOK] at hok; exact hP.plain (timeText_noC0 c _ (noC0_of_B hok)))
  | tstamp t => cases fuel <;> (simp only [encVal]; simp only [atomsOK] at hok; exact hP.plain (tstampText_noC0 c _ (noC0_of_B hok)))
  | err m =>
    cases fuel <;> (
      simp only [encVal, hc.color]
      exact hP.app (hP.app (hP.esc 31 (by decide)) (hP.plain (hq m))) (P_reset hP))
  | bytes bs => cases fuel <;> (simp only [encVal]; exact hP.plain (hq bs))
  | strs xs => cases fuel <;> (simp only [encVal]; exact hP.plain (bracket_noC0 _ (by intro x hx; simp only [List.mem_map] at hx; obtain ⟨y, _, rfl⟩ := hx; exact hq y)))
  | bools xs => cases fuel <;> (simp only [encVal]; exact hP.plain (bracket_noC0 _ (by intro x hx; simp only [List.mem_map] at hx; obtain ⟨y, _, rfl⟩ := hx; exact boolText_noC0 y)))
  | ints xs => cases fuel <;> (simp only [encVal]; exact hP.plain (bracket_noC0 _ (by intro x hx; simp only [List.mem_map] at hx; obtain ⟨y, _, rfl⟩ := hx; exact intDigits_noC0 y)))
  | uints xs => cases fuel <;> (simp only [encVal]; exact hP.plain (bracket_noC0 _ (by intro x hx; simp only [List.mem_map] at hx; obtain ⟨y, _, rfl⟩ := hx; exact natDigits_noC0 y)))
  | floats xs =>
    cases fuel <;> (simp only [encVal]; simp only [atomsOK] at hok
                    exact hP.plain (bracket_noC0 _ (by intro x hx; simp only [List.mem_map] at hx; obtain ⟨y, hy, rfl⟩ := hx; exact jsonQuoted_noC0 c _ (all_noC0 hok y hy))))
  | complexes xs =>
    cases fuel <;> (simp only [encVal]; simp only [atomsOK, List.all_eq_true, Bool.and_eq_true] at hok
                    exact hP.plain (bracket_noC0 _ (by
                      intro x hx; simp only [List.mem_map] at hx; obtain ⟨y, hy, rfl⟩ := hx
                      exact jsonQuoted_noC0 c _ (complexText_noC0 _ _ (noC0_of_B (hok y hy).1) (noC0_of_B (hok y hy).2)))))
  | durs xs => cases fuel <;> (simp only [encVal]; exact hP.plain (bracket_noC0 _ (by intro x hx; simp only [List.mem_map] at hx; obtain ⟨y, _, rfl⟩ := hx; exact hq y)))
  | times xs =>
    cases fuel <;> (simp only [encVal]; simp only [atomsOK] at hok
                    exact hP.plain (bracket_noC0 _ (by intro x hx; simp only [List.mem_map] at hx; obtain ⟨y, hy, rfl⟩ := hx; exact timeText_noC0 c _ (all_noC0 hok y hy))))
  | fallback t => cases fuel <;> (simp only [encVal]; exact hP.plain (hq t))
  | textm t fb => cases fuel <;> (simp only [encVal]; split <;> exact hP.plain (hq _))
  | group items => exact absurd rfl (hng items)

def AttrsStmtC (P : Bytes → Prop) (c : EncCfg) (fuel : Nat) : Prop :=
  ∀ (as : List Attr) (pfx : Bytes) (skip : Bool), (∀ a ∈ as, attrOK true fuel a = true) → NoC0 pfx →
    P (encAttrs c fuel pfx skip as)

def ValStmtC (P : Bytes → Prop) (c : EncCfg) (fuel : Nat) : Prop :=
  ∀ (v : Val) (pfx : Bytes), atomsOK true fuel v = true → NoC0 pfx → P (encVal c fuel pfx v)

theorem attrs_of_vals_C (c : EncCfg) (hc : ColorCfg c) (fuel : Nat) (hv : ValStmtC P c fuel) : AttrsStmtC P c fuel := by
  have hj := color_json c hc
  have hn := color_noColor c hc
  intro as
  induction as with
  | nil => intro pfx skip _ _; simp only [encAttrs]; exact hP.nil
  | cons a rest ih =>
    intro pfx skip hall hp
    have hrest : ∀ x ∈ rest, attrOK true fuel x = true := fun x hx => hall x (by simp [hx])
    cases a with
    | none => simp only [encAttrs]; exact ih pfx skip hrest hp
    | some kv =>
      obtain ⟨k, isG, v⟩ := kv
      have ha := hall (some (k, isG, v)) (by simp)
      simp only [attrOK, Bool.and_eq_true, Bool.or_eq_true, Bool.not_eq_true'] at ha
      have hk : NoC0 k := by
        rcases ha.1 with h | h
        · cases h
        · exact noC0_of_B h
      have hdot : NoC0 (dotPrefix k pfx) := dotPrefix_noC0 k pfx hk hp
      simp only [encAttrs, hj, hn, Bool.false_eq_true, if_false, Bool.not_false, Bool.and_true]
      have hsep : P (if skip = true then [] else [32] ++ echoColorAndBg c.clr c.bg) := by
        split
        · exact hP.nil
        · exact hP.app (P_lit hP _ (by decide)) (P_echoColorAndBg hP _ _ hc.clr hc.bg)
      have hkey : P (if isG = true then []
          else echoColorAndBg 90 (-1) ++ dotPrefix k pfx ++ echoColorAndBg c.clr c.bg ++ c.colon) := by
        split
        · exact hP.nil
        · exact hP.app (hP.app (hP.app (P_echoColorAndBg hP _ _ (by decide) (by decide)) (hP.plain hdot)) (P_echoColorAndBg hP _ _ hc.clr hc.bg)) (hP.plain (colon_noC0 c))
      have hval := hv v _ ha.2 hdot
      exact hP.app (hP.app (hP.app hsep hkey) hval) (ih pfx false hrest hp)

theorem vals_zero_C (c : EncCfg) (hc : ColorCfg c) : ValStmtC P c 0 := by
  intro v pfx hok _
  by_cases hg : ∃ items, v = .group items
  · obtain ⟨items, rfl⟩ := hg; simp only [encVal]; exact hP.nil
  · exact scalar_P hP c hc true 0 pfx v hok (fun items e => hg ⟨items, e⟩)

theorem vals_succ_C (c : EncCfg) (hc : ColorCfg c) (fuel : Nat) (ha : AttrsStmtC P c fuel) : ValStmtC P c (fuel + 1) := by
  intro v pfx hok hp
  by_cases hg : ∃ items, v = .group items
  · obtain ⟨items, rfl⟩ := hg
    simp only [atomsOK, List.all_eq_true] at hok
    have hall : ∀ a ∈ prepAttrs items, attrOK true fuel a = true := by
      intro a ha'
      have := hok a (prepAttrs_subset items a ha')
      cases a with
      | none => rfl
      | some kv => obtain ⟨k, g, v⟩ := kv; simpa [attrOK] using this
    simp only [encVal, color_json c hc, color_noColor c hc, Bool.false_eq_true, if_false]
    exact hP.app (ha _ pfx false hall hp) (P_reset hP)
  · exact scalar_P hP c hc true (fuel + 1) pfx v hok (fun items e => hg ⟨items, e⟩)

theorem vals_all_C (c : EncCfg) (hc : ColorCfg c) : ∀ fuel, ValStmtC P c fuel
  | 0 => vals_zero_C hP c hc
  | fuel + 1 => vals_succ_C hP c hc fuel (attrs_of_vals_C hP c hc fuel (vals_all_C c hc fuel))

theorem attrs_all_C (c : EncCfg) (hc : ColorCfg c) (fuel : Nat) : AttrsStmtC P c fuel :=
  attrs_of_vals_C hP c hc fuel (vals_all_C hP c hc fuel)

/-- the attribute part of a colored record, final reset included -/
theorem topAttrs_C (c : EncCfg) (hc : ColorCfg c) (depth : Nat) (attrs : List Attr)
    (hok : ∀ a ∈ attrs, attrOK true depth a = true) : P (encTopAttrs c depth attrs) := by
  unfold encTopAttrs
  simp only [color_noColor c hc, Bool.false_eq_true, if_false]
  apply hP.app _ (P_reset hP)
  apply attrs_all_C hP c hc depth _ [] false
  · intro a ha; exact hok a (prepAttrs_subset attrs a ha)
  · exact noC0_nil
end
end Logg.Lemmas
