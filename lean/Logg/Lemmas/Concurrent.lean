/-
  Invariant of the interleaving model (C08) and its preservation by every step of every goroutine.
-/
import Logg.Model.Concurrent

namespace Logg

theorem split_at {α : Type} (gs : List α) (g : Nat) (s : α) (h : gs[g]? = some s) :
    ∃ A B, gs = A ++ s :: B ∧ ∀ s', gs.set g s' = A ++ s' :: B := by
  induction gs generalizing g with
  | nil => simp at h
  | cons a as ih =>
    cases g with
    | zero =>
      simp at h; subst h
      exact ⟨[], as, rfl, fun _ => rfl⟩
    | succ n =>
      simp at h
      obtain ⟨A, B, h1, h2⟩ := ih n h
      subst h1
      exact ⟨a :: A, B, rfl, fun s' => by simp [h2 s']⟩

@[simp] theorem held_split (A B : List GState) (s : GState) : held (A ++ s :: B) = held A ++ (heldOf s ++ held B) := by
  simp [held]

@[simp] theorem pending_split (A B : List GState) (s : GState) : pending (A ++ s :: B) = pending A ++ (pend s ++ pending B) := by
  simp [pending]

theorem heldOf_mem_held (gs : List GState) (s : GState) (hs : s ∈ gs) (x : Nat) (hx : x ∈ heldOf s) : x ∈ held gs := by
  simp only [held, List.mem_flatMap]; exact ⟨s, hs, hx⟩

/-- The invariant: no context is in two hands; a formatted buffer holds the record of its
    owner's current call; every call is accounted for exactly once. -/
structure Inv (payload : CallId → Bytes) (total : List Bytes) (w : World) : Prop where
  nodup : (w.pool ++ held w.gs).Nodup
  bound : ∀ x ∈ w.pool ++ held w.gs, x < w.fresh
  busy : ∀ s ∈ w.gs, s.stage ≠ .idle → s.todo ≠ []
  filled : ∀ s ∈ w.gs, ∀ x, s.stage = .formatted x → ∃ c rest, s.todo = c :: rest ∧ w.bufs x = payload c
  account : (w.out ++ (pending w.gs).map payload).Perm total

theorem inv_init (payload : CallId → Bytes) (progs : List (List CallId)) :
    Inv payload (progs.flatten.map payload) (World.init progs) := by
  have hheld : ∀ ps : List (List CallId), held (ps.map fun p => ({ todo := p } : GState)) = [] := by
    intro ps
    induction ps with
    | nil => rfl
    | cons p ps ih => simp [held, heldOf] at ih ⊢
  have hpend : ∀ ps : List (List CallId), pending (ps.map fun p => ({ todo := p } : GState)) = ps.flatten := by
    intro ps
    induction ps with
    | nil => rfl
    | cons p ps ih => simp [pending, pend, List.flatMap_cons] at ih ⊢; exact ih
  have hheld := hheld progs
  have hpend := hpend progs
  refine ⟨?_, ?_, ?_, ?_, ?_⟩
  · simp [World.init, hheld]
  · simp [World.init, hheld]
  · intro s hs; simp [World.init] at hs; obtain ⟨p, _, rfl⟩ := hs; simp
  · intro s hs x hx; simp [World.init] at hs; obtain ⟨p, _, rfl⟩ := hs; simp at hx
  · simp [World.init, hpend]

/-- every atomic step of every goroutine preserves the invariant -/
theorem inv_step (payload : CallId → Bytes) (total : List Bytes) (w : World) (g : Nat)
    (h : Inv payload total w) : Inv payload total (step payload w g) := by
  unfold step stepWith
  cases hg : w.gs[g]? with
  | none => exact h
  | some s =>
    obtain ⟨A, B, hAB, hset⟩ := split_at w.gs g s hg
    obtain ⟨pool, fresh, bufs, gs, out⟩ := w
    simp only at hAB hset hg ⊢
    subst hAB
    obtain ⟨hnd, hbd, hbusy, hfill, hacc⟩ := h
    simp only [held_split, pending_split] at hnd hbd hacc
    have hbA : ∀ s ∈ A, s.stage ≠ .idle → s.todo ≠ [] := fun s hs => hbusy s (by simp [hs])
    have hbB : ∀ s ∈ B, s.stage ≠ .idle → s.todo ≠ [] := fun s hs => hbusy s (by simp [hs])
    have hfA : ∀ s ∈ A, ∀ x, s.stage = .formatted x → ∃ c rest, s.todo = c :: rest ∧ bufs x = payload c :=
      fun s hs => hfill s (by simp [hs])
    have hfB : ∀ s ∈ B, ∀ x, s.stage = .formatted x → ∃ c rest, s.todo = c :: rest ∧ bufs x = payload c :=
      fun s hs => hfill s (by simp [hs])
    have hfS := hfill s (by simp)
    have hbS := hbusy s (by simp)
    clear hbusy hfill hg
    obtain ⟨todo, stage⟩ := s
    cases todo with
    | nil =>
      refine ⟨by simpa using hnd, by simpa using hbd, ?_, ?_, by simpa using hacc⟩
      · intro s hs
        simp only [List.mem_append, List.mem_cons] at hs
        rcases hs with hs | rfl | hs
        · exact hbA s hs
        · exact hbS
        · exact hbB s hs
      · intro s hs
        simp only [List.mem_append, List.mem_cons] at hs
        rcases hs with hs | rfl | hs
        · exact hfA s hs
        · exact hfS
        · exact hfB s hs
    | cons c rest =>
      cases stage with
      | idle =>
        cases pool with
        | nil =>
          simp only [hset]
          clear hset hbS
          refine ⟨?_, ?_, ?_, ?_, ?_⟩
          · simp [heldOf, List.nodup_append] at hnd hbd ⊢
            grind
          · simp [heldOf] at hbd ⊢
            grind
          · intro s hs
            simp only [List.mem_append, List.mem_cons] at hs
            rcases hs with hs | rfl | hs
            · exact hbA s hs
            · simp
            · exact hbB s hs
          · intro s hs
            simp only [List.mem_append, List.mem_cons] at hs
            rcases hs with hs | rfl | hs
            · exact hfA s hs
            · simp
            · exact hfB s hs
          · simpa [pend] using hacc
        | cons p ps =>
          simp only [hset]
          clear hset hbS
          refine ⟨?_, ?_, ?_, ?_, ?_⟩
          · simp [heldOf, List.nodup_append] at hnd hbd ⊢
            grind
          · simp [heldOf] at hbd ⊢
            grind
          · intro s hs
            simp only [List.mem_append, List.mem_cons] at hs
            rcases hs with hs | rfl | hs
            · exact hbA s hs
            · simp
            · exact hbB s hs
          · intro s hs
            simp only [List.mem_append, List.mem_cons] at hs
            rcases hs with hs | rfl | hs
            · exact hfA s hs
            · simp
            · exact hfB s hs
          · simpa [pend] using hacc
      | got x =>
        simp only [hset]
        clear hset hbS
        refine ⟨?_, ?_, ?_, ?_, ?_⟩
        · simpa [heldOf] using hnd
        · simpa [heldOf] using hbd
        · intro s hs
          simp only [List.mem_append, List.mem_cons] at hs
          rcases hs with hs | rfl | hs
          · exact hbA s hs
          · simp
          · exact hbB s hs
        · intro s hs y hy
          simp only [List.mem_append, List.mem_cons] at hs
          have hx : ∀ s' : GState, (s' ∈ A ∨ s' ∈ B) → s'.stage = .formatted y → y ≠ x := by
            intro s' hs' hst
            have hy' : y ∈ heldOf s' := by simp [heldOf, hst]
            simp [heldOf, List.nodup_append] at hnd
            rcases hs' with hs' | hs'
            · have := heldOf_mem_held A s' hs' y hy'; grind
            · have := heldOf_mem_held B s' hs' y hy'; grind
          rcases hs with hs | rfl | hs
          · obtain ⟨c', r', h1, h2⟩ := hfA s hs y hy
            exact ⟨c', r', h1, by simp [setBuf, hx s (Or.inl hs) hy, h2]⟩
          · simp at hy; subst hy; exact ⟨c, rest, rfl, by simp [setBuf]⟩
          · obtain ⟨c', r', h1, h2⟩ := hfB s hs y hy
            exact ⟨c', r', h1, by simp [setBuf, hx s (Or.inr hs) hy, h2]⟩
        · simpa [pend] using hacc
      | formatted x =>
        simp only [hset]
        clear hset hbS
        obtain ⟨c', r', h1, h2⟩ := hfS x rfl
        simp only [List.cons.injEq] at h1
        obtain ⟨rfl, rfl⟩ := h1
        refine ⟨?_, ?_, ?_, ?_, ?_⟩
        · simpa [heldOf] using hnd
        · simpa [heldOf] using hbd
        · intro s hs
          simp only [List.mem_append, List.mem_cons] at hs
          rcases hs with hs | rfl | hs
          · exact hbA s hs
          · simp
          · exact hbB s hs
        · intro s hs
          simp only [List.mem_append, List.mem_cons] at hs
          rcases hs with hs | rfl | hs
          · exact hfA s hs
          · simp
          · exact hfB s hs
        · simp only [pending_split, pend, List.tail_cons]
          simp only [pend] at hacc
          refine List.Perm.trans ?_ hacc
          simp only [List.map_append, List.map_cons, List.append_assoc]
          apply List.Perm.append_left
          simp only [List.singleton_append]
          have h2' : bufs x = payload c := h2
          rw [h2']
          have := (List.perm_middle (a := payload c) (l₁ := List.map payload (pending A)) (l₂ := List.map payload rest ++ List.map payload (pending B)))
          simpa using this.symm
      | wrote x =>
        simp only [hset]
        clear hset hbS
        have hp : (List.replicate 1 x ++ pool ++ (held A ++ (heldOf { todo := rest, stage := .idle } ++ held B))).Perm
            (pool ++ (held A ++ (heldOf { todo := c :: rest, stage := .wrote x } ++ held B))) := by
          have := List.perm_middle (a := x) (l₁ := pool ++ held A) (l₂ := held B)
          simpa [heldOf, List.replicate] using this.symm
        refine ⟨?_, ?_, ?_, ?_, ?_⟩
        · simp only [held_split]; exact hp.nodup_iff.mpr hnd
        · intro y hy; simp only [held_split] at hy; exact hbd y (hp.mem_iff.mp hy)
        · intro s hs
          simp only [List.mem_append, List.mem_cons] at hs
          rcases hs with hs | rfl | hs
          · exact hbA s hs
          · simp
          · exact hbB s hs
        · intro s hs
          simp only [List.mem_append, List.mem_cons] at hs
          rcases hs with hs | rfl | hs
          · exact hfA s hs
          · simp
          · exact hfB s hs
        · simpa [pend] using hacc

end Logg
