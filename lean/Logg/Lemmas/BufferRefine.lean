/-
  Logg.Lemmas.BufferRefine — every operation of the buffer model is an operation of the queue
  specification on the abstracted state (refinement, operation by operation).
-/
import Logg.Lemmas.BufferSpec

namespace Logg
open Logg.Props.C19

def Refines (s : Buf) (op : BufOp) (caps : List Nat) : Prop :=
  ∃ f, ((bufStep s op caps).1.abs, (bufStep s op caps).2) = specStep s.abs op f

theorem abs_setLastRead (s : Buf) (k : Int) : ({ s with lastRead := k } : Buf).abs = { s.abs with lastRead := k } := rfl

theorem refines_reset (s : Buf) (caps : List Nat) : Refines s .reset caps :=
  ⟨false, by simp [bufStep, specStep, abs_reset]⟩

theorem refines_len (s : Buf) (caps : List Nat) : Refines s .len caps :=
  ⟨false, by simp [bufStep, specStep, len_eq, abs_unread]⟩

theorem refines_bytes (s : Buf) (caps : List Nat) : Refines s .bytes caps :=
  ⟨false, by simp [bufStep, specStep, abs_unread]⟩

theorem refines_string (s : Buf) (caps : List Nat) : Refines s .string caps :=
  ⟨false, by simp [bufStep, specStep, abs_unread]⟩

theorem refines_read (s : Buf) (n : Nat) (caps : List Nat) : Refines s (.read n) caps := by
  refine ⟨false, ?_⟩
  simp only [bufStep, specStep]
  have he : ({ s with lastRead := 0 } : Buf).empty = s.abs.unread.isEmpty := empty_iff _
  by_cases hc : s.abs.unread.isEmpty = true
  · rw [if_pos (by rw [he]; exact hc), if_pos hc]
    simp [abs_reset]
  · rw [if_neg (by rw [he]; exact hc), if_neg hc]
    simp only [len_eq]
    have := abs_advance { s with lastRead := 0 } (min n s.unread.length) (if min n s.unread.length > 0 then -1 else 0)
    simp only [Buf.unread, Buf.abs, Zip.advance] at this ⊢
    rw [Prod.mk.injEq]
    exact ⟨this, rfl⟩

theorem refines_next (s : Buf) (n : Int) (caps : List Nat) : Refines s (.next n) caps := by
  refine ⟨false, ?_⟩
  have hu : ({ s with lastRead := 0 } : Buf).unread = s.abs.unread := rfl
  simp only [bufStep, specStep, len_eq, hu]
  generalize (if n > (s.abs.unread.length : Int) then (s.abs.unread.length : Int) else n) = n'
  by_cases hneg : n' < 0
  · rw [if_pos hneg, if_pos hneg]; rfl
  · rw [if_neg hneg, if_neg hneg]
    rw [Prod.mk.injEq]
    exact ⟨abs_advance { s with lastRead := 0 } _ _, rfl⟩

theorem refines_readByte (s : Buf) (caps : List Nat) : Refines s .readByte caps := by
  refine ⟨false, ?_⟩
  simp only [bufStep, specStep]
  have he : s.empty = s.abs.unread.isEmpty := empty_iff _
  by_cases hc : s.abs.unread.isEmpty = true
  · rw [if_pos (by rw [he]; exact hc), if_pos hc]; simp [abs_reset]
  · rw [if_neg (by rw [he]; exact hc), if_neg hc]
    rw [Prod.mk.injEq]
    exact ⟨abs_advance s 1 (-1), rfl⟩

theorem refines_readRune (s : Buf) (caps : List Nat) : Refines s .readRune caps := by
  refine ⟨false, ?_⟩
  simp only [bufStep, specStep]
  have he : s.empty = s.abs.unread.isEmpty := empty_iff _
  by_cases hc : s.abs.unread.isEmpty = true
  · rw [if_pos (by rw [he]; exact hc), if_pos hc]; simp [abs_reset]
  · rw [if_neg (by rw [he]; exact hc), if_neg hc]
    simp only [abs_unread]
    by_cases hlt : s.unread.headD 0 < 0x80
    · simp only [hlt, ↓reduceIte]
      rw [Prod.mk.injEq]; exact ⟨abs_advance s 1 1, rfl⟩
    · simp only [hlt, ↓reduceIte]
      rw [Prod.mk.injEq]; exact ⟨abs_advance s _ _, rfl⟩

theorem refines_unreadRune (s : Buf) (caps : List Nat) (h : Props.C19.Inv s) : Refines s .unreadRune caps := by
  refine ⟨false, ?_⟩
  simp only [bufStep, specStep, abs_lastRead]
  by_cases hl : s.lastRead ≤ 0
  · simp only [hl, ↓reduceIte]
  · simp only [hl, ↓reduceIte]
    rw [abs_done_length s h]
    by_cases hk : s.off ≥ s.lastRead.toNat
    · simp only [hk, ↓reduceIte]
      rw [Prod.mk.injEq]; exact ⟨abs_back s _ h hk, rfl⟩
    · simp only [hk, ↓reduceIte]; rfl

theorem refines_unreadByte (s : Buf) (caps : List Nat) (h : Props.C19.Inv s) : Refines s .unreadByte caps := by
  refine ⟨false, ?_⟩
  simp only [bufStep, specStep, abs_lastRead]
  by_cases hl : (s.lastRead == 0) = true
  · simp only [hl, ↓reduceIte]
  · simp only [hl, ↓reduceIte]
    rw [abs_done_length s h]
    by_cases hk : s.off > 0
    · simp only [hk, ↓reduceIte]
      rw [Prod.mk.injEq]
      refine ⟨?_, rfl⟩
      have := abs_back s 1 h (by omega)
      simpa [Buf.abs] using this
    · simp only [hk, ↓reduceIte]; rfl

theorem abs_readAll (s : Buf) (h : Props.C19.Inv s) :
    ({ s with off := s.data.length, lastRead := -1 } : Buf).abs = { done := s.abs.done ++ s.abs.unread, unread := [], lastRead := -1 } := by
  simp [Buf.abs, List.take_append_drop]

theorem refines_readBytes (s : Buf) (d : UInt8) (caps : List Nat) (h : Props.C19.Inv s) : Refines s (.readBytes d) caps := by
  refine ⟨false, ?_⟩
  simp only [bufStep, specStep, abs_unread]
  cases hi : indexByte s.unread d with
  | some i =>
    simp only
    rw [Prod.mk.injEq]
    refine ⟨?_, rfl⟩
    have := abs_advance s (i + 1) (-1)
    simpa [Nat.add_assoc] using this
  | none =>
    simp only
    rw [Prod.mk.injEq]
    exact ⟨abs_readAll s h, rfl⟩

theorem refines_readString (s : Buf) (d : UInt8) (caps : List Nat) (h : Props.C19.Inv s) : Refines s (.readString d) caps := by
  have := refines_readBytes s d caps h
  simpa [Refines, bufStep, specStep] using this

theorem refines_truncate (s : Buf) (n : Int) (caps : List Nat) (h : Props.C19.Inv s) : Refines s (.truncate n) caps := by
  refine ⟨false, ?_⟩
  have hu : ({ s with lastRead := 0 } : Buf).unread = s.abs.unread := rfl
  simp only [bufStep, specStep, len_eq, hu]
  by_cases h0 : (n == 0) = true
  · simp only [h0, Bool.false_eq_true, ↓reduceIte, abs_reset]
  · simp only [h0, Bool.false_eq_true, ↓reduceIte]
    by_cases hb : n < 0 ∨ n > (s.abs.unread.length : Int)
    · simp only [hb, Bool.false_eq_true, ↓reduceIte]; rfl
    · simp only [hb, Bool.false_eq_true, ↓reduceIte]
      rw [Prod.mk.injEq]
      refine ⟨?_, rfl⟩
      unfold Props.C19.Inv at h
      simp only [Buf.abs, Zip.mk.injEq, and_true]
      constructor
      · rw [List.take_take]; congr 1; omega
      · rw [List.drop_take]; congr 1; omega

theorem refines_writeTo (s : Buf) (accept : Int) (fail : Bool) (caps : List Nat) : Refines s (.writeTo accept fail) caps := by
  refine ⟨false, ?_⟩
  have hu : ({ s with lastRead := 0 } : Buf).unread = s.abs.unread := rfl
  simp only [bufStep, specStep, len_eq, hu]
  by_cases hn : s.abs.unread.length > 0
  · simp only [hn, Bool.false_eq_true, ↓reduceIte]
    by_cases h1 : accept > (s.abs.unread.length : Int)
    · simp only [h1, Bool.false_eq_true, ↓reduceIte]; rfl
    · simp only [h1, Bool.false_eq_true, ↓reduceIte]
      by_cases h2 : accept < 0
      · simp only [h2, Bool.false_eq_true, ↓reduceIte]; rfl
      · simp only [h2, Bool.false_eq_true, ↓reduceIte]
        have hadv := abs_advance { s with lastRead := 0 } accept.toNat 0
        by_cases hf : fail = true
        · simp only [hf, Bool.false_eq_true, ↓reduceIte]
          rw [Prod.mk.injEq]; exact ⟨hadv, rfl⟩
        · simp only [hf, Bool.false_eq_true, ↓reduceIte]
          by_cases hm : (accept.toNat != s.abs.unread.length) = true
          · simp only [hm, Bool.false_eq_true, ↓reduceIte]
            rw [Prod.mk.injEq]; exact ⟨hadv, rfl⟩
          · simp only [hm, Bool.false_eq_true, ↓reduceIte, abs_reset]
  · simp only [hn, Bool.false_eq_true, ↓reduceIte, abs_reset]

theorem growRoom_error (s : Buf) (n : Nat) (caps : List Nat) (e : BufPanic)
    (h : s.growRoom n caps = .error e) : e = .tooLarge := growCore_error _ _ _ _ h

theorem refines_grow (s : Buf) (n : Int) (caps : List Nat) (h : Props.C19.Inv s)
    (hne : (bufStep s (.grow n) caps).2 ≠ .panic .tooLarge) : Refines s (.grow n) caps := by
  unfold Refines
  simp only [bufStep, specStep] at hne ⊢
  by_cases hn : n < 0
  · simp only [hn, ↓reduceIte]; exact ⟨false, trivial⟩
  · simp only [hn, ↓reduceIte] at hne ⊢
    cases hg : s.growRoom n.toNat caps with
    | error e =>
      simp only [hg] at hne
      exact absurd (by rw [growRoom_error _ _ _ _ hg]) hne
    | ok r =>
      obtain ⟨s', c'⟩ := r
      obtain ⟨f, hf⟩ := growRoom_abs s n.toNat caps s' c' h hg
      exact ⟨f, by simp only [hf]⟩

/-- the three plain writes share one shape -/
theorem append_refines (s : Buf) (p : Bytes) (caps : List Nat) (res : BufRes) (h : Props.C19.Inv s)
    (hne : (match ({ s with lastRead := 0 } : Buf).append p caps with
            | .ok (s', _) => (s', res)
            | .error e => (({ s with lastRead := 0 } : Buf), BufRes.panic e)).2 ≠ .panic .tooLarge) :
    ∃ f, ((match ({ s with lastRead := 0 } : Buf).append p caps with
            | .ok (s', _) => (s', res)
            | .error e => (({ s with lastRead := 0 } : Buf), BufRes.panic e)).1.abs,
          (match ({ s with lastRead := 0 } : Buf).append p caps with
            | .ok (s', _) => (s', res)
            | .error e => (({ s with lastRead := 0 } : Buf), BufRes.panic e)).2) =
      ({ (({ s.abs with lastRead := 0 } : Zip).fg f) with unread := s.abs.unread ++ p }, res) := by
  cases ha : ({ s with lastRead := 0 } : Buf).append p caps with
  | error e =>
    simp only [ha] at hne
    exact absurd (by rw [append_error _ _ _ _ ha]) hne
  | ok r =>
    obtain ⟨s', c'⟩ := r
    obtain ⟨f, hf⟩ := append_abs _ p caps s' c' (inv_lastRead s 0 h) rfl ha
    exact ⟨f, by simp only [hf]; rfl⟩

theorem refines_write (s : Buf) (p : Bytes) (caps : List Nat) (h : Props.C19.Inv s)
    (hne : (bufStep s (.write p) caps).2 ≠ .panic .tooLarge) : Refines s (.write p) caps := by
  unfold Refines
  simp only [bufStep, specStep] at hne ⊢
  exact append_refines s p caps _ h hne

theorem refines_writeString (s : Buf) (p : Bytes) (caps : List Nat) (h : Props.C19.Inv s)
    (hne : (bufStep s (.writeString p) caps).2 ≠ .panic .tooLarge) : Refines s (.writeString p) caps := by
  unfold Refines
  simp only [bufStep, specStep] at hne ⊢
  exact append_refines s p caps _ h hne

theorem refines_writeByte (s : Buf) (c : UInt8) (caps : List Nat) (h : Props.C19.Inv s)
    (hne : (bufStep s (.writeByte c) caps).2 ≠ .panic .tooLarge) : Refines s (.writeByte c) caps := by
  unfold Refines
  simp only [bufStep, specStep] at hne ⊢
  exact append_refines s [c] caps _ h hne

theorem refines_writeRune (s : Buf) (r : Int) (caps : List Nat) (h : Props.C19.Inv s)
    (hne : (bufStep s (.writeRune r) caps).2 ≠ .panic .tooLarge) : Refines s (.writeRune r) caps := by
  unfold Refines
  simp only [bufStep, specStep] at hne ⊢
  by_cases ha : 0 ≤ r ∧ r < 0x80
  · simp only [ha, and_self, ↓reduceIte] at hne ⊢
    obtain ⟨f, hf⟩ := append_refines s [r.toNat.toUInt8] caps (.nErr 1 "") h hne
    exact ⟨f, hf.trans rfl⟩
  · simp only [ha, ↓reduceIte] at hne ⊢
    have h0 : Props.C19.Inv ({ s with lastRead := 0 } : Buf) := inv_lastRead s 0 h
    by_cases hroom : 4 ≤ ({ s with lastRead := 0 } : Buf).cap - ({ s with lastRead := 0 } : Buf).data.length
    · simp only [hroom, ↓reduceIte]
      refine ⟨false, ?_⟩
      rw [Prod.mk.injEq]
      exact ⟨abs_append_data _ _ h0, rfl⟩
    · simp only [hroom, ↓reduceIte] at hne ⊢
      cases hg : ({ s with lastRead := 0 } : Buf).growRoom 4 caps with
      | error e =>
        simp only [hg] at hne
        exact absurd (by rw [growRoom_error _ _ _ _ hg]) hne
      | ok pr =>
        obtain ⟨s1, c1⟩ := pr
        have hinv := (growRoom_inv _ 4 caps s1 c1 h0 hg).1
        obtain ⟨f, hf⟩ := growRoom_abs _ 4 caps s1 c1 h0 hg
        obtain ⟨f', hf'⟩ := room_fg ({ s with lastRead := 0 } : Buf).abs rfl f
        refine ⟨f', ?_⟩
        simp only
        rw [Prod.mk.injEq]
        refine ⟨?_, rfl⟩
        rw [abs_append_data s1 _ hinv, hf, hf']
        cases f' <;> rfl

theorem readFrom_refines (st : List (Bytes × ReadErr)) : ∀ (t : Buf) (c : List Nat) (n : Int) (acc : Bytes) (q : Zip),
    Props.C19.Inv t → t.lastRead = 0 → q.lastRead = 0 →
    (∃ f, t.abs = { (q.fg f) with unread := q.unread ++ acc }) →
    (readFromLoop st t c n).2 ≠ .panic .tooLarge →
    ∃ f, (readFromLoop st t c n).1.abs = { (q.fg f) with unread := q.unread ++ (specReadFrom st acc n).1 } ∧
         (readFromLoop st t c n).2 = (specReadFrom st acc n).2 := by
  induction st with
  | nil =>
    intro t c n acc q _ _ _ hab _
    obtain ⟨f, hf⟩ := hab
    exact ⟨f, by simpa [readFromLoop, specReadFrom] using hf, by simp [readFromLoop, specReadFrom]⟩
  | cons x xs ih =>
    intro t c n acc q ht ht0 hq0 hab hne
    obtain ⟨chunk, e⟩ := x
    obtain ⟨f, hf⟩ := hab
    simp only [readFromLoop] at hne ⊢
    cases hg : t.growRoom minRead c with
    | error p =>
      simp only [hg] at hne
      exact absurd (by rw [growRoom_error _ _ _ _ hg]) hne
    | ok pr =>
      obtain ⟨t1, c1⟩ := pr
      simp only [hg] at hne ⊢
      have h1 := (growRoom_inv t minRead c t1 c1 ht hg).1
      obtain ⟨g, hgab⟩ := growRoom_abs t minRead c t1 c1 ht hg
      obtain ⟨g', hg'⟩ := room_fg t.abs ht0 g
      have ht1 : t1.lastRead = 0 := by
        have := congrArg Zip.lastRead (hgab.trans hg')
        simp only [abs_lastRead] at this
        rw [this]; cases g' <;> simpa [Zip.fg, abs_lastRead] using ht0
      -- the state after making room, in terms of q
      have hab1 : ∃ f1, t1.abs = { (q.fg f1) with unread := q.unread ++ acc } := by
        rw [hgab, hg', hf]
        cases g'
        · exact ⟨f, rfl⟩
        · exact ⟨true, by cases f <;> rfl⟩
      obtain ⟨f1, hf1⟩ := hab1
      by_cases hneg : (e == ReadErr.negative) = true
      · simp only [hneg, ↓reduceIte, specReadFrom]
        exact ⟨f1, hf1, trivial⟩
      · simp only [hneg, Bool.false_eq_true, ↓reduceIte, specReadFrom] at hne ⊢
        have h2 : Props.C19.Inv ({ t1 with data := t1.data ++ chunk } : Buf) := by
          unfold Props.C19.Inv at h1 ⊢; simp; omega
        have hab2 : ({ t1 with data := t1.data ++ chunk } : Buf).abs = { (q.fg f1) with unread := q.unread ++ (acc ++ chunk) } := by
          rw [abs_append_data t1 chunk h1, hf1]
          cases f1 <;> simp [Zip.fg, List.append_assoc]
        cases e with
        | eof => exact ⟨f1, hab2, rfl⟩
        | other => exact ⟨f1, hab2, rfl⟩
        | negative => simp at hneg
        | none =>
          simp only at hne ⊢
          exact ih _ c1 _ (acc ++ chunk) q h2 ht1 hq0 ⟨f1, hab2⟩ hne

theorem refines_readFrom (s : Buf) (steps : List (Bytes × ReadErr)) (caps : List Nat) (h : Props.C19.Inv s)
    (hne : (bufStep s (.readFrom steps) caps).2 ≠ .panic .tooLarge) : Refines s (.readFrom steps) caps := by
  unfold Refines
  simp only [bufStep, specStep] at hne ⊢
  obtain ⟨f, h1, h2⟩ := readFrom_refines steps { s with lastRead := 0 } caps 0 [] { s.abs with lastRead := 0 }
    (inv_lastRead s 0 h) rfl rfl ⟨false, by simp [Zip.fg, Buf.abs]⟩ hne
  exact ⟨f, by rw [h1, h2]⟩

end Logg
