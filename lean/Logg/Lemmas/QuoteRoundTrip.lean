/-
  Round trip of the Go-syntax quoting: strconv.Unquote (model goUnquote) of what the encoder's
  appendQuotedWith (model goQuote) wrote gives the original bytes back — for every byte string.
-/
import Logg.Lemmas.Utf8RoundTrip
namespace Logg
open Logg.Lemmas

theorem byte_of_toNat (b : UInt8) (n : Nat) (h : b.toNat = n) : b = n.toUInt8 := by
  rw [← h]; exact (toUInt8_toNat b).symm

theorem encodeRune_ascii (r : Nat) (h : r < 0x80) : encodeRune r = [r.toUInt8] := by
  have hv : validRune r = true := by simp [validRune]; omega
  simp [encodeRune, hv, h]

/-- an invalid byte written as \xHH reads back as that byte -/
theorem unquoteChar_hexbyte (b0 : UInt8) (rest : Bytes) :
    unquoteChar (([92, 120] : Bytes) ++ hex2 b0.toNat ++ rest) = some ([b0], rest) := by
  have hl : (hex2 b0.toNat ++ rest).length ≥ 2 := by simp [hex2]
  have ht : (hex2 b0.toNat ++ rest).take 2 = hex2 b0.toNat := by simp [hex2]
  have hd : (hex2 b0.toNat ++ rest).drop 2 = rest := by simp [hex2]
  have hb : b0.toNat % 256 = b0.toNat := Nat.mod_eq_of_lt (UInt8.toNat_lt b0)
  simp only [List.cons_append, List.nil_append, unquoteChar]
  have hlen : (hex2 b0.toNat).length = 2 := rfl
  simp [ht, hd, hexValue_hex2, hb, hlen]

theorem unquoteChar_u4 (r : Nat) (hr : r < 0x10000) (hv : validRune r = true) (rest : Bytes) :
    unquoteChar (([92, 117] : Bytes) ++ hex4 r ++ rest) =
      some (if r < 0x80 then [r.toUInt8] else encodeRune r, rest) := by
  have ht : (hex4 r ++ rest).take 4 = hex4 r := by simp [hex4]
  have hd : (hex4 r ++ rest).drop 4 = rest := by simp [hex4]
  have hlen : (hex4 r).length = 4 := rfl
  have hm : r % 65536 = r := Nat.mod_eq_of_lt hr
  simp only [List.cons_append, List.nil_append, unquoteChar]
  simp [ht, hd, hexValue_hex4, hm, hlen, hv]

theorem unquoteChar_u8 (r : Nat) (hr : 0x10000 ≤ r) (hv : validRune r = true) (rest : Bytes) :
    unquoteChar (([92, 85] : Bytes) ++ hex8 r ++ rest) = some (encodeRune r, rest) := by
  have hmax : r ≤ 0x10FFFF := by
    unfold validRune maxRune at hv
    simp only [Bool.or_eq_true, Bool.and_eq_true, decide_eq_true_eq] at hv
    omega
  have ht : (hex8 r ++ rest).take 8 = hex8 r := by simp [hex8, hex4]
  have hd : (hex8 r ++ rest).drop 8 = rest := by simp [hex8, hex4]
  have hlen : (hex8 r).length = 8 := rfl
  have hm : r % 4294967296 = r := Nat.mod_eq_of_lt (by omega)
  have h80 : ¬ r < 128 := by omega
  simp only [List.cons_append, List.nil_append, unquoteChar]
  simp [ht, hd, hexValue_hex8, hm, hlen, hv, h80]

/-- an ASCII byte, however `escapeRune` writes it, reads back as that byte -/
theorem unquoteChar_escape_ascii (isPrint : Nat → Bool) (b : UInt8) (hb : b < 0x80) (rest : Bytes) :
    unquoteChar (escapeRune isPrint b.toNat ++ rest) = some ([b], rest) := by
  have hr : b.toNat < 128 := by have := UInt8.lt_iff_toNat_lt.mp hb; simpa using this
  generalize hrr : b.toNat = r at hr
  have hbr : b = r.toUInt8 := byte_of_toNat b r hrr
  subst hbr
  clear hb hrr
  unfold escapeRune
  by_cases h1 : r = 34
  · subst h1; simp [unquoteChar]
  by_cases h2 : r = 92
  · subst h2; simp [unquoteChar]
  have e12 : (r == 34 || r == 92) = false := by simp [h1, h2]
  rw [e12]
  simp only [Bool.false_eq_true, if_false]
  have hne34 : r.toUInt8 ≠ 34 := by
    intro h; have := congrArg UInt8.toNat h; rw [toUInt8_toNat_small r (by omega)] at this; exact h1 (by simpa using this)
  have hne92 : r.toUInt8 ≠ 92 := by
    intro h; have := congrArg UInt8.toNat h; rw [toUInt8_toNat_small r (by omega)] at this; exact h2 (by simpa using this)
  have hlt : ¬ r.toUInt8 ≥ 0x80 := by
    rw [ge_iff_le, UInt8.le_iff_toNat_le, toUInt8_toNat_small r (by omega)]; simp; omega
  by_cases hp : isPrint r = true
  · rw [if_pos hp, encodeRune_ascii r (by omega)]
    simp [unquoteChar, hne34, hne92, hlt]
  rw [if_neg hp]
  by_cases h7 : r = 7
  · subst h7; simp [unquoteChar]
  by_cases h8 : r = 8
  · subst h8; simp [unquoteChar]
  by_cases h12 : r = 12
  · subst h12; simp [unquoteChar]
  by_cases h10 : r = 10
  · subst h10; simp [unquoteChar]
  by_cases h13 : r = 13
  · subst h13; simp [unquoteChar]
  by_cases h9 : r = 9
  · subst h9; simp [unquoteChar]
  by_cases h11 : r = 11
  · subst h11; simp [unquoteChar]
  simp only [beq_iff_eq, h7, h8, h12, h10, h13, h9, h11, if_false]
  by_cases hc : r < 32 ∨ r = 127
  · have : (decide (r < 32) || r == 127) = true := by simpa using hc
    rw [if_pos this]
    have := unquoteChar_hexbyte r.toUInt8 rest
    rw [toUInt8_toNat_small r (by omega)] at this
    exact this
  · have : (decide (r < 32) || r == 127) = false := by simpa using hc
    rw [this]
    simp only [Bool.false_eq_true, if_false]
    have hv : validRune r = true := by simp [validRune]; omega
    simp only [hv, Bool.not_true, Bool.false_eq_true, if_false]
    rw [if_pos (by omega)]
    rw [unquoteChar_u4 r (by omega) hv rest, if_pos (by omega)]

theorem decode_encode (r : Nat) (h0 : 0x80 ≤ r) (hv : validRune r = true) (t : Bytes) :
    decodeRune (encodeRune r ++ t) = (r, (encodeRune r).length) := by
  by_cases h1 : r < 0x800
  · rw [decode_encode2 r h0 h1 t]
    have : (encodeRune r).length = 2 := by
      simp [encodeRune, hv, h1, show ¬ r < 128 from by omega]
    rw [this]
  by_cases h2 : r < 0x10000
  · rw [decode_encode3 r (by omega) h2 hv t]
    have : (encodeRune r).length = 3 := by
      simp [encodeRune, hv, h1, h2, show ¬ r < 128 from by omega]
    rw [this]
  · rw [decode_encode4 r (by omega) hv t]
    have : (encodeRune r).length = 4 := by
      simp [encodeRune, hv, h1, h2, show ¬ r < 128 from by omega]
    rw [this]

/-- the raw UTF-8 encoding of a valid non-ASCII rune reads back as itself -/
theorem unquoteChar_raw (r : Nat) (h0 : 0x80 ≤ r) (hv : validRune r = true) (rest : Bytes) :
    unquoteChar (encodeRune r ++ rest) = some (encodeRune r, rest) := by
  have hhigh := encodeRune_high r h0
  cases he : encodeRune r with
  | nil =>
    have : (encodeRune r).length = 0 := by rw [he]; rfl
    by_cases h1 : r < 0x800
    · simp [encodeRune, hv, h1, show ¬ r < 128 from by omega] at this
    · by_cases h2 : r < 0x10000
      · simp [encodeRune, hv, h1, h2, show ¬ r < 128 from by omega] at this
      · simp [encodeRune, hv, h1, h2, show ¬ r < 128 from by omega] at this
  | cons c cs =>
    have hc : 128 ≤ c.toNat := hhigh c (by rw [he]; simp)
    have c34 : ¬ (c == 34) = true := by
      intro h; have : c = 34 := by simpa using h
      subst this; simp at hc
    have cge : c ≥ 0x80 := by rw [ge_iff_le, UInt8.le_iff_toNat_le]; simpa using hc
    have hd := decode_encode r h0 hv rest
    rw [he] at hd
    simp only [List.cons_append, unquoteChar]
    rw [if_neg c34, if_pos cge]
    simp only [List.cons_append] at hd
    rw [hd]
    simp [he]

/-- a valid non-ASCII rune, however `escapeRune` writes it, reads back as its UTF-8 encoding -/
theorem unquoteChar_escape_rune (isPrint : Nat → Bool) (r : Nat) (h0 : 0x80 ≤ r) (hv : validRune r = true) (rest : Bytes) :
    unquoteChar (escapeRune isPrint r ++ rest) = some (encodeRune r, rest) := by
  unfold escapeRune
  have e12 : (r == 34 || r == 92) = false := by
    simp; omega
  rw [e12]
  simp only [Bool.false_eq_true, if_false]
  by_cases hp : isPrint r = true
  · rw [if_pos hp]; exact unquoteChar_raw r h0 hv rest
  rw [if_neg hp]
  have n7 : (r == 7) = false := by simp; omega
  have n8 : (r == 8) = false := by simp; omega
  have n12 : (r == 12) = false := by simp; omega
  have n10 : (r == 10) = false := by simp; omega
  have n13 : (r == 13) = false := by simp; omega
  have n9 : (r == 9) = false := by simp; omega
  have n11 : (r == 11) = false := by simp; omega
  have nc : (decide (r < 32) || r == 127) = false := by simp; omega
  simp only [n7, n8, n12, n10, n13, n9, n11, nc, hv, Bool.not_true, Bool.false_eq_true, if_false]
  by_cases h2 : r < 0x10000
  · rw [if_pos h2, unquoteChar_u4 r h2 hv rest, if_neg (by omega)]
  · rw [if_neg h2, unquoteChar_u8 r (by omega) hv rest]

theorem encodeRune_pos (r : Nat) : 0 < (encodeRune r).length := by
  unfold encodeRune
  simp only []
  repeat' split
  all_goals simp

theorem escapeRune_pos (isPrint : Nat → Bool) (r : Nat) : 0 < (escapeRune isPrint r).length := by
  unfold escapeRune
  by_cases c1 : (r == 34 || r == 92) = true
  · rw [if_pos c1]; exact Nat.zero_lt_succ _
  rw [if_neg c1]
  by_cases c2 : isPrint r = true
  · rw [if_pos c2]; exact encodeRune_pos r
  rw [if_neg c2]
  by_cases d0 : (r == 7) = true
  · rw [if_pos d0]; exact Nat.zero_lt_succ _
  rw [if_neg d0]
  by_cases d1 : (r == 8) = true
  · rw [if_pos d1]; exact Nat.zero_lt_succ _
  rw [if_neg d1]
  by_cases d2 : (r == 12) = true
  · rw [if_pos d2]; exact Nat.zero_lt_succ _
  rw [if_neg d2]
  by_cases d3 : (r == 10) = true
  · rw [if_pos d3]; exact Nat.zero_lt_succ _
  rw [if_neg d3]
  by_cases d4 : (r == 13) = true
  · rw [if_pos d4]; exact Nat.zero_lt_succ _
  rw [if_neg d4]
  by_cases d5 : (r == 9) = true
  · rw [if_pos d5]; exact Nat.zero_lt_succ _
  rw [if_neg d5]
  by_cases d6 : (r == 11) = true
  · rw [if_pos d6]; exact Nat.zero_lt_succ _
  rw [if_neg d6]
  by_cases d7 : (decide (r < 32) || r == 127) = true
  · rw [if_pos d7]; exact Nat.zero_lt_succ _
  rw [if_neg d7]
  by_cases d8 : (!validRune r) = true
  · rw [if_pos d8]; exact Nat.zero_lt_succ _
  rw [if_neg d8]
  by_cases d9 : r < 0x10000
  · rw [if_pos d9]; exact Nat.zero_lt_succ _
  rw [if_neg d9]
  exact Nat.zero_lt_succ _

theorem unquoteBody_step (f : Nat) (E Q out : Bytes) (hE : 0 < E.length) (h : unquoteChar (E ++ Q) = some (out, Q)) :
    unquoteBody (f + 1) (E ++ Q) = (unquoteBody f Q).map (out ++ ·) := by
  cases E with
  | nil => simp at hE
  | cons e es =>
    simp only [List.cons_append] at h ⊢
    simp only [unquoteBody, h]

/-- Reading back what `quoteBody` wrote gives the original bytes — for every byte string (valid
    UTF-8 or not) and every printability predicate. -/
theorem unquoteBody_quoteBody (isPrint : Nat → Bool) :
    ∀ (fuel : Nat) (s : Bytes), s.length ≤ fuel →
      ∀ fuel', (quoteBody isPrint fuel s).length ≤ fuel' → unquoteBody fuel' (quoteBody isPrint fuel s) = some s := by
  intro fuel
  induction fuel with
  | zero =>
    intro s hs fuel' _
    have : s = [] := List.eq_nil_of_length_eq_zero (by omega)
    subst this
    cases fuel' <;> simp [quoteBody, unquoteBody]
  | succ fuel ih =>
    intro s hs fuel' hf
    cases s with
    | nil => cases fuel' <;> simp [quoteBody, unquoteBody]
    | cons b0 t =>
      have hlen : t.length ≤ fuel := by simp at hs; omega
      by_cases hb : b0 < 0x80
      · have hq : quoteBody isPrint (fuel + 1) (b0 :: t) = escapeRune isPrint b0.toNat ++ quoteBody isPrint fuel t := by
          simp [quoteBody, hb]
        rw [hq] at hf ⊢
        have hpos := escapeRune_pos isPrint b0.toNat
        cases fuel' with
        | zero => rw [List.length_append] at hf; omega
        | succ f =>
          rw [unquoteBody_step f _ _ [b0] hpos (unquoteChar_escape_ascii isPrint b0 hb _)]
          rw [ih t hlen f (by rw [List.length_append] at hf; omega)]
          simp
      · cases hd : decodeRune (b0 :: t) with
        | mk r w =>
          by_cases hinv : w = 1 ∧ r = runeError
          · have hq : quoteBody isPrint (fuel + 1) (b0 :: t) = (([92, 120] : Bytes) ++ hex2 b0.toNat) ++ quoteBody isPrint fuel t := by
              simp [quoteBody, hb, hd, hinv.1, hinv.2]
            rw [hq] at hf ⊢
            cases fuel' with
            | zero => simp at hf
            | succ f =>
              rw [unquoteBody_step f _ _ [b0] (by simp [hex2]) (unquoteChar_hexbyte b0 _)]
              rw [ih t hlen f (by simp [hex2] at hf; omega)]
              simp
          · obtain ⟨henc, hv, h80, hw⟩ := decode_canonical b0 t hb r w hd hinv
            have hcond : (w == 1 && r == runeError) = false := by
              simp only [Bool.and_eq_false_iff, beq_eq_false_iff_ne]; left; omega
            have hq : quoteBody isPrint (fuel + 1) (b0 :: t) = escapeRune isPrint r ++ quoteBody isPrint fuel ((b0 :: t).drop w) := by
              simp [quoteBody, hb, hd, hcond]
            rw [hq] at hf ⊢
            have hpos := escapeRune_pos isPrint r
            have hdl : ((b0 :: t).drop w).length ≤ fuel := by simp at hs ⊢; omega
            cases fuel' with
            | zero => rw [List.length_append] at hf; omega
            | succ f =>
              rw [unquoteBody_step f _ _ (encodeRune r) hpos (unquoteChar_escape_rune isPrint r h80 hv _)]
              rw [ih _ hdl f (by rw [List.length_append] at hf; omega)]
              simp [henc]

/-- **Round trip of the Go-syntax quoting** (logfmt and colored mode): `strconv.Unquote` of what
    the encoder writes for a string-like value is that value — for every byte string, valid
    UTF-8 or not, and every printability predicate that never calls a control byte printable. -/
theorem goUnquote_goQuote (isPrint : Nat → Bool) (hp : PrintSafe isPrint) (s : Bytes) :
    goUnquote (goQuote isPrint s) = some s := by
  have hclean := quoteBody_clean isPrint hp s.length s
  generalize hq : quoteBody isPrint s.length s = body at hclean
  have hrt := unquoteBody_quoteBody isPrint s.length s (Nat.le_refl _) body.length (by rw [hq]; exact Nat.le_refl _)
  rw [hq] at hrt
  have hno10 : body.contains 10 = false := by
    cases hc : body.contains 10 with
    | false => rfl
    | true =>
      have hm : (10 : UInt8) ∈ body := by simpa using hc
      have := (hclean 10 hm).1
      simp at this
  unfold goUnquote goQuote
  rw [hq]
  have hlen : ¬ (34 :: body ++ [34]).length < 2 := by simp
  have hhead : (34 :: body ++ [34] : Bytes).head? = some 34 := rfl
  have hlast : (34 :: body ++ [34] : Bytes).getLast? = some 34 := by
    rw [show (34 :: body ++ [34] : Bytes) = (34 :: body) ++ [34] from rfl, List.getLast?_append]; rfl
  have hbody : ((34 :: body ++ [34] : Bytes).drop 1).dropLast = body := by simp
  rw [if_neg hlen, hhead, hlast, hbody]
  have hnm : ¬ (10 : UInt8) ∈ body := by
    intro hm; have := (hclean 10 hm).1; simp at this
  simp [hnm, hrt]
end Logg
