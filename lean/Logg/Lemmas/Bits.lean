/- Helper lemmas about single-bit flags (core Lean only). -/
namespace Logg.Lemmas

theorem and_two_pow_cases (f k : Nat) : f &&& 2^k = 0 ∨ f &&& 2^k = 2^k := by
  by_cases h : f.testBit k
  · right
    apply Nat.eq_of_testBit_eq
    intro i
    simp only [Nat.testBit_and, Nat.testBit_two_pow]
    by_cases hki : k = i
    · subst hki; simp [h]
    · simp [hki]
  · left
    apply Nat.eq_of_testBit_eq
    intro i
    simp only [Nat.testBit_and, Nat.testBit_two_pow, Nat.zero_testBit]
    by_cases hki : k = i
    · subst hki; simp [h]
    · simp [hki]

/-- For a one-bit flag "all bits set" (`IsAllBitsSet`) and "any bit set" (`IsAnyBitsSet`) coincide. -/
theorem land_single_bit (f : Nat) (k : Nat) : (Nat.land f (2 ^ k) == 2 ^ k) = (Nat.land f (2 ^ k) != 0) := by
  have h : f &&& 2 ^ k = 0 ∨ f &&& 2 ^ k = 2 ^ k := and_two_pow_cases f k
  have hp : 2 ^ k ≠ 0 := Nat.pos_iff_ne_zero.mp (Nat.two_pow_pos k)
  show ((f &&& 2 ^ k) == 2 ^ k) = ((f &&& 2 ^ k) != 0)
  rcases h with h | h
  · rw [h]; simp; exact fun h' => hp h'.symm
  · rw [h]; simp

end Logg.Lemmas
