/-
  UTF-8 bit arithmetic: the rune a multi-byte sequence decodes to encodes back to the same bytes.
  Bitwise operations are turned into +, *, /, % (disjoint-bits lemma or_add) and left to omega.
-/
import Logg.Model.Utf8
namespace Logg

theorem or_add (x y k : Nat) (hx : x % 2 ^ k = 0) (hy : y < 2 ^ k) : x ||| y = x + y := by
  have h := Nat.two_pow_add_eq_or_of_lt hy (x / 2 ^ k)
  have hx' : 2 ^ k * (x / 2 ^ k) = x := by
    have := Nat.div_add_mod x (2 ^ k); omega
  rw [hx'] at h
  exact h.symm

theorem and63_mod (x : Nat) : x &&& 63 = x % 64 := Nat.and_two_pow_sub_one_eq_mod x 6
theorem and31 (x : Nat) : x &&& 31 = x % 32 := Nat.and_two_pow_sub_one_eq_mod x 5
theorem and15 (x : Nat) : x &&& 15 = x % 16 := Nat.and_two_pow_sub_one_eq_mod x 4
theorem and7 (x : Nat) : x &&& 7 = x % 8 := Nat.and_two_pow_sub_one_eq_mod x 3

theorem rune2 (b0 b1 : Nat) : (b0 &&& 31) <<< 6 ||| (b1 &&& 63) = (b0 % 32) * 64 + b1 % 64 := by
  rw [and31, and63_mod, Nat.shiftLeft_eq]
  exact or_add _ _ 6 (by omega) (by omega)

theorem rune3 (b0 b1 b2 : Nat) :
    (b0 &&& 15) <<< 12 ||| (b1 &&& 63) <<< 6 ||| (b2 &&& 63) = (b0 % 16) * 4096 + (b1 % 64) * 64 + b2 % 64 := by
  rw [and15, and63_mod, and63_mod, Nat.shiftLeft_eq, Nat.shiftLeft_eq]
  rw [or_add (b0 % 16 * 2 ^ 12) (b1 % 64 * 2 ^ 6) 12 (by omega) (by omega)]
  rw [or_add _ (b2 % 64) 6 (by omega) (by omega)]

theorem rune4 (b0 b1 b2 b3 : Nat) :
    (b0 &&& 7) <<< 18 ||| (b1 &&& 63) <<< 12 ||| (b2 &&& 63) <<< 6 ||| (b3 &&& 63) =
      (b0 % 8) * 262144 + (b1 % 64) * 4096 + (b2 % 64) * 64 + b3 % 64 := by
  rw [and7, and63_mod, and63_mod, and63_mod, Nat.shiftLeft_eq, Nat.shiftLeft_eq, Nat.shiftLeft_eq]
  rw [or_add (b0 % 8 * 2 ^ 18) (b1 % 64 * 2 ^ 12) 18 (by omega) (by omega)]
  rw [or_add _ (b2 % 64 * 2 ^ 6) 12 (by omega) (by omega)]
  rw [or_add _ (b3 % 64) 6 (by omega) (by omega)]

theorem lead2 (r : Nat) (h : r < 2048) : 192 ||| (r >>> 6) = 192 + r / 64 := by
  rw [Nat.shiftRight_eq_div_pow]; exact or_add 192 _ 6 (by omega) (by omega)
theorem lead3 (r : Nat) (h : r < 65536) : 224 ||| (r >>> 12) = 224 + r / 4096 := by
  rw [Nat.shiftRight_eq_div_pow]; exact or_add 224 _ 4 (by omega) (by omega)
theorem lead4 (r : Nat) (h : r < 2097152) : 240 ||| (r >>> 18) = 240 + r / 262144 := by
  rw [Nat.shiftRight_eq_div_pow]; exact or_add 240 _ 3 (by omega) (by omega)
theorem cont0 (x : Nat) : 128 ||| (x &&& 63) = 128 + x % 64 := by
  rw [and63_mod]; exact or_add 128 _ 6 (by omega) (by omega)
theorem cont6 (x : Nat) : 128 ||| ((x >>> 6) &&& 63) = 128 + x / 64 % 64 := by
  rw [and63_mod, Nat.shiftRight_eq_div_pow]; exact or_add 128 _ 6 (by omega) (by omega)
theorem cont12 (x : Nat) : 128 ||| ((x >>> 12) &&& 63) = 128 + x / 4096 % 64 := by
  rw [and63_mod, Nat.shiftRight_eq_div_pow]; exact or_add 128 _ 6 (by omega) (by omega)


theorem toUInt8_toNat (b : UInt8) : b.toNat.toUInt8 = b := UInt8.ofNat_toNat

theorem two_byte (b0 b1 : UInt8) (h0 : 0xC2 ≤ b0.toNat) (h0' : b0.toNat < 0xE0) (h1 : 0x80 ≤ b1.toNat) (h1' : b1.toNat ≤ 0xBF) :
    encodeRune ((b0.toNat &&& 0x1F) <<< 6 ||| (b1.toNat &&& 0x3F)) = [b0, b1] := by
  have hr := rune2 b0.toNat b1.toNat
  rw [hr]
  generalize hrr : b0.toNat % 32 * 64 + b1.toNat % 64 = r
  have hlo : 0x80 ≤ r := by omega
  have hhi : r < 0x800 := by omega
  unfold encodeRune
  have hv : validRune r = true := by simp [validRune]; omega
  simp only [hv, if_true]
  rw [if_neg (by omega), if_pos hhi]
  rw [lead2 r (by omega), cont0 r]
  have e0 : 192 + r / 64 = b0.toNat := by omega
  have e1 : 128 + r % 64 = b1.toNat := by omega
  rw [e0, e1, toUInt8_toNat, toUInt8_toNat]

theorem three_byte (b0 b1 b2 : UInt8) (h0 : 0xE0 ≤ b0.toNat) (h0' : b0.toNat < 0xF0)
    (h1 : (if b0.toNat = 0xE0 then 0xA0 else 0x80) ≤ b1.toNat) (h1' : b1.toNat ≤ (if b0.toNat = 0xED then 0x9F else 0xBF))
    (h2 : 0x80 ≤ b2.toNat) (h2' : b2.toNat ≤ 0xBF) :
    encodeRune ((b0.toNat &&& 0x0F) <<< 12 ||| (b1.toNat &&& 0x3F) <<< 6 ||| (b2.toNat &&& 0x3F)) = [b0, b1, b2] ∧
    validRune ((b0.toNat &&& 0x0F) <<< 12 ||| (b1.toNat &&& 0x3F) <<< 6 ||| (b2.toNat &&& 0x3F)) = true ∧
    0x800 ≤ ((b0.toNat &&& 0x0F) <<< 12 ||| (b1.toNat &&& 0x3F) <<< 6 ||| (b2.toNat &&& 0x3F)) := by
  have hr := rune3 b0.toNat b1.toNat b2.toNat
  rw [hr]
  generalize hrr : b0.toNat % 16 * 4096 + b1.toNat % 64 * 64 + b2.toNat % 64 = r
  have hb1 : 0x80 ≤ b1.toNat ∧ b1.toNat ≤ 0xBF ∧ (b0.toNat = 0xE0 → 0xA0 ≤ b1.toNat) ∧ (b0.toNat = 0xED → b1.toNat ≤ 0x9F) := by
    refine ⟨?_, ?_, ?_, ?_⟩
    · split at h1 <;> omega
    · split at h1' <;> omega
    · intro h; rw [if_pos h] at h1; exact h1
    · intro h; rw [if_pos h] at h1'; exact h1'
  clear h1 h1'
  obtain ⟨g1, g2, g3, g4⟩ := hb1
  have hlo : 0x800 ≤ r := by
    by_cases h : b0.toNat = 0xE0
    · have := g3 h; omega
    · omega
  have hhi : r < 0x10000 := by omega
  have hsur : r < 0xD800 ∨ 0xDFFF < r := by
    by_cases h : b0.toNat = 0xED
    · have := g4 h; omega
    · omega
  have hv : validRune r = true := by
    have hm : r ≤ 1114111 := by omega
    simp [validRune, maxRune, hm]; omega
  refine ⟨?_, hv, hlo⟩
  unfold encodeRune
  simp only [hv, if_true]
  rw [if_neg (by omega), if_neg (by omega), if_pos hhi]
  rw [lead3 r hhi, cont6 r, cont0 r]
  have e0 : 224 + r / 4096 = b0.toNat := by omega
  have e1 : 128 + r / 64 % 64 = b1.toNat := by omega
  have e2 : 128 + r % 64 = b2.toNat := by omega
  rw [e0, e1, e2, toUInt8_toNat, toUInt8_toNat, toUInt8_toNat]

theorem four_byte (b0 b1 b2 b3 : UInt8) (h0 : 0xF0 ≤ b0.toNat) (h0' : b0.toNat < 0xF5)
    (h1 : (if b0.toNat = 0xF0 then 0x90 else 0x80) ≤ b1.toNat) (h1' : b1.toNat ≤ (if b0.toNat = 0xF4 then 0x8F else 0xBF))
    (h2 : 0x80 ≤ b2.toNat) (h2' : b2.toNat ≤ 0xBF) (h3 : 0x80 ≤ b3.toNat) (h3' : b3.toNat ≤ 0xBF) :
    encodeRune ((b0.toNat &&& 0x07) <<< 18 ||| (b1.toNat &&& 0x3F) <<< 12 ||| (b2.toNat &&& 0x3F) <<< 6 ||| (b3.toNat &&& 0x3F)) = [b0, b1, b2, b3] ∧
    validRune ((b0.toNat &&& 0x07) <<< 18 ||| (b1.toNat &&& 0x3F) <<< 12 ||| (b2.toNat &&& 0x3F) <<< 6 ||| (b3.toNat &&& 0x3F)) = true ∧
    0x10000 ≤ ((b0.toNat &&& 0x07) <<< 18 ||| (b1.toNat &&& 0x3F) <<< 12 ||| (b2.toNat &&& 0x3F) <<< 6 ||| (b3.toNat &&& 0x3F)) := by
  have hr := rune4 b0.toNat b1.toNat b2.toNat b3.toNat
  rw [hr]
  generalize hrr : b0.toNat % 8 * 262144 + b1.toNat % 64 * 4096 + b2.toNat % 64 * 64 + b3.toNat % 64 = r
  have hb1 : 0x80 ≤ b1.toNat ∧ b1.toNat ≤ 0xBF ∧ (b0.toNat = 0xF0 → 0x90 ≤ b1.toNat) ∧ (b0.toNat = 0xF4 → b1.toNat ≤ 0x8F) := by
    refine ⟨?_, ?_, ?_, ?_⟩
    · split at h1 <;> omega
    · split at h1' <;> omega
    · intro h; rw [if_pos h] at h1; exact h1
    · intro h; rw [if_pos h] at h1'; exact h1'
  clear h1 h1'
  obtain ⟨g1, g2, g3, g4⟩ := hb1
  have hlo : 0x10000 ≤ r := by
    by_cases h : b0.toNat = 0xF0
    · have := g3 h; omega
    · omega
  have hhi : r ≤ 0x10FFFF := by
    by_cases h : b0.toNat = 0xF4
    · have := g4 h; omega
    · omega
  have hv : validRune r = true := by
    have hm : r ≤ 1114111 := by omega
    simp [validRune, maxRune, hm]; omega
  refine ⟨?_, hv, hlo⟩
  unfold encodeRune
  simp only [hv, if_true]
  rw [if_neg (by omega), if_neg (by omega), if_neg (by omega)]
  rw [lead4 r (by omega), cont12 r, cont6 r, cont0 r]
  have e0 : 240 + r / 262144 = b0.toNat := by omega
  have e1 : 128 + r / 4096 % 64 = b1.toNat := by omega
  have e2 : 128 + r / 64 % 64 = b2.toNat := by omega
  have e3 : 128 + r % 64 = b3.toNat := by omega
  rw [e0, e1, e2, e3, toUInt8_toNat, toUInt8_toNat, toUInt8_toNat, toUInt8_toNat]
end Logg
