/-
  Logg.Lemmas.Logfmt — the logfmt reader over what the encoder writes: quoted values are single
  tokens whatever they contain; a row of space-led tokens splits back into exactly those tokens.
-/
import Logg.Model.Logfmt
import Logg.Lemmas.QuoteClean

namespace Logg
open Logg.Lemmas

/-- scanning x from state s meets no space outside quotes; the state it ends in -/
def scanTo : QSt → Bytes → Option QSt
  | s, [] => some s
  | s, c :: rest => if s = .out ∧ c = 32 then none else scanTo (qStep s c) rest

theorem scanTo_append (s : QSt) (a b : Bytes) : scanTo s (a ++ b) = (scanTo s a).bind (fun s' => scanTo s' b) := by
  induction a generalizing s with
  | nil => rfl
  | cons c a ih =>
    simp only [List.cons_append, scanTo]
    split
    · rfl
    · exact ih _

theorem tokensFrom_scan (s s' : QSt) (cur x rest : Bytes) (h : scanTo s x = some s') :
    tokensFrom s cur (x ++ rest) = tokensFrom s' (cur ++ x) rest := by
  induction x generalizing s cur with
  | nil => simp only [scanTo, Option.some.injEq] at h; subst h; simp
  | cons c x ih =>
    simp only [scanTo] at h
    split at h
    · cases h
    · rename_i hc
      simp only [List.cons_append, tokensFrom, hc, ↓reduceIte]
      rw [ih _ _ h, List.append_assoc]; rfl

/-- a piece that reads as (part of) one token from outside quotes back to outside quotes -/
def Bal (x : Bytes) : Prop := scanTo .out x = some .out
/-- a piece that stays inside quotes -/
def Inq (x : Bytes) : Prop := scanTo .inq x = some .inq

theorem bal_nil : Bal [] := rfl
theorem inq_nil : Inq [] := rfl

theorem bal_append {a b : Bytes} (ha : Bal a) (hb : Bal b) : Bal (a ++ b) := by
  unfold Bal at *; rw [scanTo_append, ha]; exact hb

theorem inq_append {a b : Bytes} (ha : Inq a) (hb : Inq b) : Inq (a ++ b) := by
  unfold Inq at *; rw [scanTo_append, ha]; exact hb

theorem bal_plain (x : Bytes) (h : ∀ c ∈ x, c ≠ 32 ∧ c ≠ 34) : Bal x := by
  induction x with
  | nil => rfl
  | cons c x ih =>
    have hc := h c (by simp)
    have h34 : (c == 34) = false := by simpa using hc.2
    unfold Bal
    simp only [scanTo, hc.1, and_false, ↓reduceIte, qStep, h34, Bool.false_eq_true]
    exact ih (fun c' hc' => h c' (by simp [hc']))

theorem inq_plain (x : Bytes) (h : ∀ c ∈ x, c ≠ 34 ∧ c ≠ 92) : Inq x := by
  induction x with
  | nil => rfl
  | cons c x ih =>
    have hc := h c (by simp)
    have h34 : (c == 34) = false := by simpa using hc.1
    have h92 : (c == 92) = false := by simpa using hc.2
    unfold Inq
    simp only [scanTo, reduceCtorEq, false_and, ↓reduceIte, qStep, h34, h92, Bool.false_eq_true]
    exact ih (fun c' hc' => h c' (by simp [hc']))

theorem inq_escape (c : UInt8) : Inq [92, c] := by
  simp [Inq, scanTo, qStep]

theorem bal_quoted (body : Bytes) (h : Inq body) : Bal (34 :: (body ++ [34])) := by
  unfold Bal Inq at *
  simp only [scanTo, ↓reduceIte, qStep, beq_self_eq_true]
  rw [scanTo_append, h]
  simp [scanTo, qStep]

theorem inq_of_high {bs : Bytes} (h : ∀ c ∈ bs, 128 ≤ c.toNat) : Inq bs :=
  inq_plain bs (fun c hc => by
    have := h c hc
    constructor <;> (intro e; subst e; simp at this))

theorem hexChar_plain (n : Nat) : hexChar n ≠ 34 ∧ hexChar n ≠ 92 := by
  have hm : n % 16 < 16 := Nat.mod_lt _ (by decide)
  have hr : (48 ≤ (hexChar n).toNat ∧ (hexChar n).toNat ≤ 57) ∨ (97 ≤ (hexChar n).toNat ∧ (hexChar n).toNat ≤ 102) := by
    unfold hexChar
    split
    · left; rw [toUInt8_toNat_small _ (by omega)]; omega
    · right; rw [toUInt8_toNat_small _ (by omega)]; omega
  constructor <;> (intro e; rw [e] at hr; simp at hr)

theorem hex_inq (n : Nat) : Inq (hex2 n) ∧ Inq (hex4 n) ∧ Inq (hex8 n) := by
  have h2 : ∀ n, Inq (hex2 n) := fun n => inq_plain _ (by
    intro c hc; simp only [hex2, List.mem_cons, List.not_mem_nil, or_false] at hc
    rcases hc with rfl | rfl <;> exact hexChar_plain _)
  have h4 : ∀ n, Inq (hex4 n) := fun n => inq_plain _ (by
    intro c hc; simp only [hex4, List.mem_cons, List.not_mem_nil, or_false] at hc
    rcases hc with rfl | rfl | rfl | rfl <;> exact hexChar_plain _)
  exact ⟨h2 n, h4 n, by unfold hex8; exact inq_append (h4 _) (h4 _)⟩

theorem escapeRune_inq (isPrint : Nat → Bool) (r : Nat) : Inq (escapeRune isPrint r) := by
  obtain ⟨h2, h4, h8⟩ : (∀ n, Inq (hex2 n)) ∧ (∀ n, Inq (hex4 n)) ∧ (∀ n, Inq (hex8 n)) :=
    ⟨fun n => (hex_inq n).1, fun n => (hex_inq n).2.1, fun n => (hex_inq n).2.2⟩
  unfold escapeRune
  by_cases h : (r == 34 || r == 92) = true
  · rw [if_pos h]; exact inq_escape _
  · rw [if_neg h]
    by_cases hpr : isPrint r = true
    · rw [if_pos hpr]
      by_cases hlow : r < 0x80
      · have : encodeRune r = [r.toUInt8] := by
          have hv : validRune r = true := by simp [validRune]; omega
          simp [encodeRune, hv, hlow]
        rw [this]
        apply inq_plain
        intro c hc
        simp only [List.mem_cons, List.not_mem_nil, or_false] at hc
        subst hc
        simp only [Bool.or_eq_true, beq_iff_eq, not_or] at h
        constructor
        · intro e; have := congrArg UInt8.toNat e; rw [toUInt8_toNat_small _ (by omega)] at this; simp at this; exact h.1 this
        · intro e; have := congrArg UInt8.toNat e; rw [toUInt8_toNat_small _ (by omega)] at this; simp at this; exact h.2 this
      · exact inq_of_high (encodeRune_high r (by omega))
    · rw [if_neg hpr]
      by_cases c1 : (r == 7) = true
      · rw [if_pos c1]; exact inq_escape _
      rw [if_neg c1]
      by_cases c2 : (r == 8) = true
      · rw [if_pos c2]; exact inq_escape _
      rw [if_neg c2]
      by_cases c3 : (r == 12) = true
      · rw [if_pos c3]; exact inq_escape _
      rw [if_neg c3]
      by_cases c4 : (r == 10) = true
      · rw [if_pos c4]; exact inq_escape _
      rw [if_neg c4]
      by_cases c5 : (r == 13) = true
      · rw [if_pos c5]; exact inq_escape _
      rw [if_neg c5]
      by_cases c6 : (r == 9) = true
      · rw [if_pos c6]; exact inq_escape _
      rw [if_neg c6]
      by_cases c7 : (r == 11) = true
      · rw [if_pos c7]; exact inq_escape _
      rw [if_neg c7]
      by_cases c8 : (decide (r < 32) || r == 127) = true
      · rw [if_pos c8]; exact inq_append (inq_escape _) (h2 _)
      rw [if_neg c8]
      by_cases c9 : (!validRune r) = true
      · rw [if_pos c9]; exact inq_append (inq_escape _) (h4 _)
      rw [if_neg c9]
      by_cases c10 : r < 0x10000
      · rw [if_pos c10]; exact inq_append (inq_escape _) (h4 _)
      rw [if_neg c10]; exact inq_append (inq_escape _) (h8 _)

theorem quoteBody_inq (isPrint : Nat → Bool) (fuel : Nat) : ∀ s, Inq (quoteBody isPrint fuel s) := by
  induction fuel with
  | zero => intro s; exact inq_nil
  | succ f ih =>
    intro s
    cases s with
    | nil => exact inq_nil
    | cons b0 t =>
      simp only [quoteBody]
      split
      · exact inq_append (escapeRune_inq isPrint _) (ih _)
      · split
        · exact inq_append (inq_append (inq_escape _) (hex_inq _).1) (ih _)
        · exact inq_append (escapeRune_inq isPrint _) (ih _)

/-- a Go-quoted value is one token, whatever bytes went in -/
theorem goQuote_bal (isPrint : Nat → Bool) (s : Bytes) : Bal (goQuote isPrint s) :=
  bal_quoted _ (quoteBody_inq isPrint _ s)

theorem goQuote_ne_nil (isPrint : Nat → Bool) (s : Bytes) : goQuote isPrint s ≠ [] := by simp [goQuote]

/-! ### rows of space-led tokens -/

/-- `Spaced x T`: x is a row of pieces each led by one space — a token of T, or nothing — in order -/
inductive Spaced : Bytes → List Bytes → Prop where
  | nil : Spaced [] []
  | sp {x T} : Spaced x T → Spaced (32 :: x) T
  | tok {t x T} : Bal t → t ≠ [] → Spaced x T → Spaced (32 :: (t ++ x)) (t :: T)

theorem Spaced.append {x y : Bytes} {T U : List Bytes} (hx : Spaced x T) (hy : Spaced y U) : Spaced (x ++ y) (T ++ U) := by
  induction hx with
  | nil => exact hy
  | sp _ ih => exact Spaced.sp ih
  | tok hb hne _ ih => rw [List.cons_append, List.append_assoc]; exact Spaced.tok hb hne ih

theorem Spaced.head {x : Bytes} {T : List Bytes} (h : Spaced x T) : x = [] ∨ ∃ r, x = 32 :: r := by
  cases h with
  | nil => left; rfl
  | sp _ => right; exact ⟨_, rfl⟩
  | tok _ _ _ => right; exact ⟨_, rfl⟩

theorem emitTok_ne {t : Bytes} (h : t ≠ []) : emitTok t = [t] := by
  cases t with
  | nil => exact absurd rfl h
  | cons _ _ => rfl

/-- the reader splits a row back into its tokens (the token being read when the row starts is closed
    by the row's first space) -/
theorem tokensFrom_spaced {x : Bytes} {T : List Bytes} (h : Spaced x T) (cur : Bytes) :
    tokensFrom .out cur x = emitTok cur ++ T := by
  induction h generalizing cur with
  | nil => simp [tokensFrom]
  | sp _ ih =>
    simp only [tokensFrom, and_self, ↓reduceIte, ih [], emitTok, List.isEmpty_nil, List.nil_append]
  | @tok t x T hb hne hx ih =>
    simp only [tokensFrom, and_self, ↓reduceIte]
    rw [tokensFrom_scan .out .out [] t x hb, List.nil_append, ih t, emitTok_ne hne]
    rfl

/-- a line: a first token, then a row -/
theorem logfmtTokens_line (t x : Bytes) (T : List Bytes) (hb : Bal t) (hne : t ≠ []) (hx : Spaced x T) :
    logfmtTokens (t ++ x) = t :: T := by
  unfold logfmtTokens
  rw [tokensFrom_scan .out .out [] t x hb, List.nil_append, tokensFrom_spaced hx, emitTok_ne hne]
  rfl

/-- key = value: the key has no '=' -/
theorem splitPair_kv (k v : Bytes) (hk : ∀ c ∈ k, c ≠ 61) : splitPair (k ++ 61 :: v) = some (k, v) := by
  have hidx : (k ++ 61 :: v).findIdx? (· == 61) = some k.length := by
    induction k with
    | nil => simp [List.findIdx?_cons]
    | cons c k ih =>
      have hc : (c == 61) = false := by simpa using hk c (by simp)
      simp only [List.cons_append, List.findIdx?_cons, hc, Bool.false_eq_true, ↓reduceIte,
        ih (fun c' hc' => hk c' (by simp [hc'])), Option.map_some, List.length_cons]
  have hd : (k ++ 61 :: v).drop (k.length + 1) = v := by
    rw [← List.drop_drop, List.drop_left' rfl]; rfl
  simp only [splitPair, hidx, List.take_left' rfl, hd]

end Logg
