import Logg.Lemmas.EncoderClean
namespace Logg
open Logg.Lemmas

/-- a terminal's view of SGR sequences, reduced to what the property is about: is any colour or
    attribute switched on, and was a line feed met while one was -/
structure Sgr where
  colored : Bool   -- some colour / attribute is on
  mode : Nat       -- 0 text, 1 after ESC, 2 inside the parameter of "ESC ["
  nz : Bool        -- mode 2: a non-zero digit was seen
  bad : Bool       -- a line feed while colored, or a sequence the encoder never writes
  deriving DecidableEq, Repr

def Sgr.init : Sgr := ⟨false, 0, false, false⟩

def sgrStep (s : Sgr) (c : UInt8) : Sgr :=
  if s.mode = 0 then
    if c = 27 then { s with mode := 1 }
    else if c = 10 then { s with bad := s.bad || s.colored }
    else s
  else if s.mode = 1 then
    if c = 91 then { s with mode := 2, nz := false } else { s with mode := 0, bad := true }
  else
    if 48 ≤ c.toNat ∧ c.toNat ≤ 57 then { s with nz := s.nz || c != 48 }
    else if c = 109 then { s with mode := 0, colored := s.nz, nz := false }
    else { s with mode := 0, bad := true }

def sgrScan (s : Sgr) (bs : Bytes) : Sgr := bs.foldl sgrStep s

theorem sgrScan_append (s : Sgr) (a b : Bytes) : sgrScan s (a ++ b) = sgrScan (sgrScan s a) b := by
  simp [sgrScan, List.foldl_append]

/-- between sequences, nothing pending, nothing wrong so far -/
def Txt (s : Sgr) : Prop := s.mode = 0 ∧ s.nz = false ∧ s.bad = false

theorem sgrScan_plain (s : Sgr) (hs : s.mode = 0) (bs : Bytes) (h : NoC0 bs) : sgrScan s bs = s := by
  induction bs generalizing s with
  | nil => rfl
  | cons c t ih =>
    have hc : 32 ≤ c.toNat := h c (by simp)
    have h27 : c ≠ 27 := by intro e; subst e; simp at hc
    have h10 : c ≠ 10 := by intro e; subst e; simp at hc
    have : sgrStep s c = s := by simp [sgrStep, hs, h27, h10]
    show sgrScan (sgrStep s c) t = s
    rw [this]
    exact ih s hs (fun x hx => h x (by simp [hx]))

/-- digits in the parameter: only the non-zero flag can change -/
theorem sgrScan_digits (s : Sgr) (hs : s.mode = 2) (ds : Bytes) (hd : ∀ c ∈ ds, 48 ≤ c.toNat ∧ c.toNat ≤ 57) :
    sgrScan s ds = { s with nz := s.nz || ds.any (· != 48) } := by
  induction ds generalizing s with
  | nil => simp [sgrScan]
  | cons c t ih =>
    have hc := hd c (by simp)
    have hstep : sgrStep s c = { s with nz := s.nz || c != 48 } := by
      simp [sgrStep, hs, hc.1, hc.2]
    show sgrScan (sgrStep s c) t = _
    rw [hstep, ih _ (by simpa using hs) (fun x hx => hd x (by simp [hx]))]
    simp [Bool.or_assoc]

theorem decDigits_digit (f v : Nat) : ∀ c ∈ decDigits f v, 48 ≤ c.toNat ∧ c.toNat ≤ 57 := by
  induction f generalizing v with
  | zero => intro c hc; simp [decDigits] at hc
  | succ f ih =>
    intro c hc
    simp only [decDigits] at hc
    split at hc
    · have := List.mem_singleton.mp hc; subst this; rw [toUInt8_toNat_small _ (by omega)]; omega
    · rcases List.mem_append.mp hc with h | h
      · exact ih _ c h
      · have := List.mem_singleton.mp h; subst this; rw [toUInt8_toNat_small _ (by omega)]; omega

theorem decDigits_nonzero (f v : Nat) (hv : v < 10 ^ f) : (decDigits f v).any (· != 48) = decide (v ≠ 0) := by
  induction f generalizing v with
  | zero => simp at hv; subst hv; simp [decDigits]
  | succ f ih =>
    simp only [decDigits]
    split
    · rename_i h10
      by_cases h0 : v = 0
      · subst h0; simp
      · have hne : ((48 + v).toUInt8 != 48) = true := by
          rw [bne_iff_ne]
          intro e; have := congrArg UInt8.toNat e
          rw [toUInt8_toNat_small _ (by omega)] at this; simp at this; omega
        rw [List.any_cons, hne]; simp [h0]
    · rename_i h10
      have hdiv : v / 10 < 10 ^ f := by
        have : 10 ^ (f + 1) = 10 * 10 ^ f := by rw [Nat.pow_succ]; omega
        omega
      rw [List.any_append, ih _ hdiv]
      have : v / 10 ≠ 0 := by omega
      have hv0 : v ≠ 0 := by omega
      simp [this, hv0]

theorem natDigits_nonzero (n : Nat) : (natDigits n).any (· != 48) = decide (n ≠ 0) := by
  unfold natDigits
  apply decDigits_nonzero
  exact Nat.lt_of_lt_of_le (Nat.lt_pow_self (show 1 < 10 by decide)) (Nat.pow_le_pow_right (by decide) (Nat.le_succ n))

/-- a whole sequence `ESC [ n m` with n ≥ 0, met between sequences: colour on iff n ≠ 0 -/
theorem sgrScan_esc (s : Sgr) (hs : Txt s) (n : Int) (hn : 0 ≤ n) :
    sgrScan s (esc n) = { s with colored := decide (n ≠ 0) } := by
  obtain ⟨h0, h1, h2⟩ := hs
  have hd : intDigits n = natDigits n.toNat := by simp [intDigits, show ¬ n < 0 from by omega]
  unfold esc
  rw [hd, sgrScan_append, sgrScan_append]
  have e1 : sgrScan s [27, 91] = { s with mode := 2, nz := false } := by
    simp [sgrScan, sgrStep, h0]
  have hdig : ∀ c ∈ natDigits n.toNat, 48 ≤ c.toNat ∧ c.toNat ≤ 57 := decDigits_digit _ _
  rw [e1, sgrScan_digits _ rfl _ hdig, natDigits_nonzero]
  have hiff : decide (n.toNat ≠ 0) = decide (n ≠ 0) := by
    by_cases h : n = 0
    · subst h; rfl
    · have : n.toNat ≠ 0 := by omega
      simp [h, this]
  rw [hiff]
  cases s with
  | mk colored mode nz bad =>
    simp only at h0 h1 h2
    subst h0 h1 h2
    simp [sgrScan, sgrStep]
end Logg
