/-
  Logg.Lemmas.TreeLinks — the link structure of the logger hierarchy (parent link, child ids) apart
  from everything else a logger carries: how each operation changes it, the well-formedness it keeps,
  and what `Each` enumerates in a well-formed table.
-/
import Logg.Model.Tree

namespace Logg

/-- parent link and child ids of one logger -/
abbrev Links := Option Nat × List Nat
abbrev LinkTab := List Links

def linksOf (n : Node) : Links := (n.parent, n.children.map (·.2))
def linkTab (t : Tree) : LinkTab := t.map linksOf

/-- a detached logger is added -/
def addRoot (L : LinkTab) : LinkTab := L ++ [(none, [])]
/-- a child of q is added -/
def addChild (L : LinkTab) (q : Nat) : LinkTab :=
  match L[q]? with
  | some (pr, cs) => L.set q (pr, cs ++ [L.length]) ++ [(some q, [])]
  | none => L

/-- `Each` on the link table -/
def eachL (L : LinkTab) : (fuel : Nat) → Nat → Nat → List (Nat × Nat)
  | 0, i, d => [(i, d)]
  | fuel + 1, i, d =>
    match L[i]? with
    | some (_, cs) => (i, d) :: cs.flatMap fun c => eachL L fuel c (d + 1)
    | none => [(i, d)]

theorem eachOf_eq (t : Tree) (fuel i d : Nat) : eachOf t fuel i d = eachL (linkTab t) fuel i d := by
  induction fuel generalizing i d with
  | zero => rfl
  | succ fuel ih =>
    simp only [eachOf, eachL, linkTab, List.getElem?_map]
    cases t[i]? with
    | none => rfl
    | some n =>
      have hf : (fun kc : Bytes × Nat => eachOf t fuel kc.2 (d + 1)) = (fun kc => eachL (linkTab t) fuel kc.2 (d + 1)) :=
        funext fun kc => ih _ _
      simp only [Option.map_some, linksOf, List.flatMap_map, hf, linkTab]

/-- k steps up the parent links -/
def climb (L : LinkTab) : Nat → Nat → Option Nat
  | 0, j => some j
  | k + 1, j =>
    match L[j]? with
    | some (some p, _) => climb L k p
    | _ => none

structure WF (L : LinkTab) : Prop where
  /-- parents are earlier -/
  earlier : ∀ (i p : Nat) (cs : List Nat), L[i]? = some (some p, cs) → p < i
  /-- a listed child has that parent -/
  childOf : ∀ (i : Nat) (pr : Option Nat) (cs : List Nat), L[i]? = some (pr, cs) → ∀ c ∈ cs, ∃ cs', L[c]? = some (some i, cs')
  /-- a logger with a parent is listed there -/
  listed : ∀ (j p : Nat) (cs : List Nat), L[j]? = some (some p, cs) → ∃ pr cs', L[p]? = some (pr, cs') ∧ j ∈ cs'
  /-- no child is listed twice -/
  nodup : ∀ (i : Nat) (pr : Option Nat) (cs : List Nat), L[i]? = some (pr, cs) → cs.Nodup

theorem wf_nil : WF [] := ⟨by simp, by simp, by simp, by simp⟩

theorem getElem?_lt {α} {L : List α} {i : Nat} {x : α} (h : L[i]? = some x) : i < L.length := by
  have := List.getElem?_eq_some_iff.mp h; exact this.1

theorem wf_addRoot (L : LinkTab) (h : WF L) : WF (addRoot L) := by
  have key : ∀ (i : Nat) (x : Links), (addRoot L)[i]? = some x → L[i]? = some x ∨ (i = L.length ∧ x = (none, [])) := by
    intro i x hx
    unfold addRoot at hx
    by_cases hi : i < L.length
    · rw [List.getElem?_append_left hi] at hx; exact Or.inl hx
    · have hl := getElem?_lt hx
      simp at hl
      have : i = L.length := by omega
      subst this
      simp at hx; exact Or.inr ⟨rfl, hx.symm⟩
  have mono : ∀ (i : Nat) (x : Links), L[i]? = some x → (addRoot L)[i]? = some x := by
    intro i x hx
    unfold addRoot
    rw [List.getElem?_append_left (getElem?_lt hx)]; exact hx
  constructor
  · intro i p cs hx
    rcases key i _ hx with h' | ⟨_, h'⟩
    · exact h.earlier i p cs h'
    · cases h'
  · intro i pr cs hx c hc
    rcases key i _ hx with h' | ⟨_, h'⟩
    · obtain ⟨cs', hcs'⟩ := h.childOf i pr cs h' c hc
      exact ⟨cs', mono _ _ hcs'⟩
    · cases h'; simp at hc
  · intro j p cs hx
    rcases key j _ hx with h' | ⟨_, h'⟩
    · obtain ⟨pr, cs', h1, h2⟩ := h.listed j p cs h'
      exact ⟨pr, cs', mono _ _ h1, h2⟩
    · cases h'
  · intro i pr cs hx
    rcases key i _ hx with h' | ⟨_, h'⟩
    · exact h.nodup i pr cs h'
    · cases h'; simp

theorem addChild_eq (L : LinkTab) (q : Nat) (pr : Option Nat) (cs : List Nat) (hq : L[q]? = some (pr, cs)) :
    addChild L q = L.set q (pr, cs ++ [L.length]) ++ [(some q, [])] := by
  simp only [addChild, hq]

theorem addChild_rows (L : LinkTab) (q : Nat) (pr : Option Nat) (cs : List Nat) (hq : L[q]? = some (pr, cs)) :
    (∀ (i : Nat) (x : Links), (addChild L q)[i]? = some x →
        (i ≠ q ∧ L[i]? = some x) ∨ (i = q ∧ x = (pr, cs ++ [L.length])) ∨ (i = L.length ∧ x = (some q, []))) ∧
    (∀ (i : Nat) (x : Links), i ≠ q → L[i]? = some x → (addChild L q)[i]? = some x) ∧
    (addChild L q)[q]? = some (pr, cs ++ [L.length]) ∧
    (addChild L q)[L.length]? = some (some q, []) := by
  have hql := getElem?_lt hq
  rw [addChild_eq L q pr cs hq]
  refine ⟨?_, ?_, ?_, ?_⟩
  · intro i x hx
    by_cases hi : i < L.length
    · rw [List.getElem?_append_left (by simpa using hi)] at hx
      by_cases hiq : i = q
      · subst hiq
        simp only [List.getElem?_set_self hi, Option.some.injEq] at hx
        exact Or.inr (Or.inl ⟨rfl, hx.symm⟩)
      · rw [List.getElem?_set_ne (Ne.symm hiq)] at hx
        exact Or.inl ⟨hiq, hx⟩
    · have hl := getElem?_lt hx
      simp at hl
      have : i = L.length := by omega
      subst this
      rw [List.getElem?_append_right (by simp)] at hx
      simp at hx
      exact Or.inr (Or.inr ⟨rfl, hx.symm⟩)
  · intro i x hiq hx
    rw [List.getElem?_append_left (by simpa using getElem?_lt hx), List.getElem?_set_ne (Ne.symm hiq)]
    exact hx
  · rw [List.getElem?_append_left (by simpa using hql), List.getElem?_set_self hql]
  · rw [List.getElem?_append_right (by simp)]; simp

theorem wf_addChild (L : LinkTab) (q : Nat) (h : WF L) : WF (addChild L q) := by
  cases hq : L[q]? with
  | none => simpa only [addChild, hq] using h
  | some x =>
    obtain ⟨pr, cs⟩ := x
    obtain ⟨key, mono, rowq, rown⟩ := addChild_rows L q pr cs hq
    have hql := getElem?_lt hq
    -- a row of the new table with a given parent exists whenever it existed before
    have keepParent : ∀ (c i : Nat) (cs1 : List Nat), L[c]? = some (some i, cs1) → ∃ cs2, (addChild L q)[c]? = some (some i, cs2) := by
      intro c i cs1 hc
      by_cases hcq : c = q
      · subst hcq
        rw [hq] at hc
        simp only [Option.some.injEq, Prod.mk.injEq] at hc
        exact ⟨cs ++ [L.length], by rw [rowq, hc.1]⟩
      · exact ⟨cs1, mono c _ hcq hc⟩
    have keepListed : ∀ (p1 j1 : Nat) (pr1 : Option Nat) (cs1 : List Nat), L[p1]? = some (pr1, cs1) → j1 ∈ cs1 →
        ∃ pr2 cs2, (addChild L q)[p1]? = some (pr2, cs2) ∧ j1 ∈ cs2 := by
      intro p1 j1 pr1 cs1 hp hj
      by_cases hpq : p1 = q
      · subst hpq
        rw [hq] at hp
        simp only [Option.some.injEq, Prod.mk.injEq] at hp
        exact ⟨pr, cs ++ [L.length], rowq, by rw [hp.2]; simp [hj]⟩
      · exact ⟨pr1, cs1, mono p1 _ hpq hp, hj⟩
    constructor
    · intro i p cs1 hx
      rcases key i _ hx with ⟨_, h1⟩ | ⟨rfl, h1⟩ | ⟨rfl, h1⟩
      · exact h.earlier i p cs1 h1
      · simp only [Prod.mk.injEq] at h1
        exact h.earlier i p cs (by rw [hq, ← h1.1])
      · simp only [Prod.mk.injEq, Option.some.injEq] at h1
        omega
    · intro i pr1 cs1 hx c hc
      rcases key i _ hx with ⟨_, h1⟩ | ⟨rfl, h1⟩ | ⟨rfl, h1⟩
      · obtain ⟨cs2, hcs2⟩ := h.childOf i pr1 cs1 h1 c hc
        exact keepParent c i cs2 hcs2
      · simp only [Prod.mk.injEq] at h1
        rw [h1.2, List.mem_append, List.mem_singleton] at hc
        rcases hc with hc | hc
        · obtain ⟨cs2, hcs2⟩ := h.childOf i pr cs hq c hc
          exact keepParent c i cs2 hcs2
        · subst hc; exact ⟨[], rown⟩
      · simp only [Prod.mk.injEq] at h1
        rw [h1.2] at hc; simp at hc
    · intro j p cs1 hx
      rcases key j _ hx with ⟨_, h1⟩ | ⟨rfl, h1⟩ | ⟨rfl, h1⟩
      · obtain ⟨pr1, cs2, h2, h3⟩ := h.listed j p cs1 h1
        exact keepListed p j pr1 cs2 h2 h3
      · simp only [Prod.mk.injEq] at h1
        obtain ⟨pr1, cs2, h2, h3⟩ := h.listed j p cs (by rw [hq, ← h1.1])
        exact keepListed p j pr1 cs2 h2 h3
      · simp only [Prod.mk.injEq, Option.some.injEq] at h1
        rw [h1.1]
        exact ⟨pr, cs ++ [L.length], rowq, by simp⟩
    · intro i pr1 cs1 hx
      rcases key i _ hx with ⟨_, h1⟩ | ⟨rfl, h1⟩ | ⟨rfl, h1⟩
      · exact h.nodup i pr1 cs1 h1
      · simp only [Prod.mk.injEq] at h1
        rw [h1.2]
        have hn := h.nodup i pr cs hq
        have hnot : L.length ∉ cs := by
          intro hm
          obtain ⟨cs2, hcs2⟩ := h.childOf i pr cs hq _ hm
          have := getElem?_lt hcs2
          omega
        rw [List.nodup_append]
        exact ⟨hn, by simp, by intro a ha b hb; simp at hb; subst hb; intro e; subst e; exact hnot ha⟩
      · simp only [Prod.mk.injEq] at h1
        rw [h1.2]; simp

/-! ### every operation is one of three changes of the link table -/

theorem applySetting_links (n : Node) (s : Setting) : linksOf (applySetting n s) = linksOf n := by
  cases s <;> rfl

theorem foldl_links (n : Node) (opts : List Setting) : linksOf (opts.foldl applySetting n) = linksOf n := by
  induction opts generalizing n with
  | nil => rfl
  | cons s ss ih => rw [List.foldl_cons, ih, applySetting_links]

theorem set_same {α} (L : List α) (i : Nat) (x : α) (h : L[i]? = some x) : L.set i x = L := by
  apply List.ext_getElem?
  intro j
  by_cases hj : i = j
  · subst hj; rw [List.getElem?_set_self (getElem?_lt h), h]
  · rw [List.getElem?_set_ne hj]

theorem linkTab_get (t : Tree) (i : Nat) (n : Node) (h : t[i]? = some n) : (linkTab t)[i]? = some (linksOf n) := by
  simp [linkTab, h]

theorem linkTab_set_same (t : Tree) (i : Nat) (n n' : Node) (h : t[i]? = some n) (hl : linksOf n' = linksOf n) :
    linkTab (t.set i n') = linkTab t := by
  unfold linkTab
  rw [List.map_set, hl]
  exact set_same _ _ _ (by simpa [linkTab] using linkTab_get t i n h)

theorem linkTab_addChild (t : Tree) (p : Nat) (pn c : Node) (key : Bytes) (hp : t[p]? = some pn) (hc : linksOf c = (some p, [])) :
    linkTab (t.set p { pn with children := pn.children ++ [(key, t.length)] } ++ [c]) = addChild (linkTab t) p := by
  have hrow : (linkTab t)[p]? = some (pn.parent, pn.children.map (fun kc : Bytes × Nat => kc.2)) := linkTab_get t p pn hp
  rw [addChild_eq (linkTab t) p _ _ hrow]
  simp only [linkTab, List.map_append, List.map_set, List.map_cons, List.map_nil, List.length_map]
  rw [hc]
  simp only [linksOf, List.map_append, List.map_cons, List.map_nil]

theorem linkTab_step (t : Tree) (op : TreeOp) :
    linkTab (treeStep t op).1 = linkTab t ∨ linkTab (treeStep t op).1 = addRoot (linkTab t) ∨
      ∃ q, linkTab (treeStep t op).1 = addChild (linkTab t) q := by
  cases op with
  | set i s =>
    simp only [treeStep]
    cases hi : t[i]? with
    | none => left; rfl
    | some n => left; exact linkTab_set_same t i n _ hi (applySetting_links n s)
  | newRoot name lvl opts =>
    right; left
    simp only [treeStep, linkTab, addRoot, List.map_append, List.map_cons, List.map_nil]
    have := foldl_links (freshRoot name lvl) opts
    rw [this]; rfl
  | newChild p key name opts =>
    simp only [treeStep]
    cases hp : t[p]? with
    | none => left; rfl
    | some pn =>
      simp only
      cases hl : pn.children.lookup key with
      | some c => left; rfl
      | none =>
        right; right
        exact ⟨p, linkTab_addChild t p pn _ key hp (by rw [foldl_links]; rfl)⟩
  | withSkip p key n =>
    simp only [treeStep]
    cases hp : t[p]? with
    | none => left; rfl
    | some pn =>
      simp only
      cases hl : pn.children.lookup key with
      | some c =>
        simp only
        cases hc : t[c]? with
        | none => left; rfl
        | some cn => left; exact linkTab_set_same t c cn _ hc rfl
      | none =>
        right; right
        exact ⟨p, linkTab_addChild t p pn _ key hp rfl⟩

/-- after any history the link table is well formed -/
theorem wf_step (t : Tree) (op : TreeOp) (h : WF (linkTab t)) : WF (linkTab (treeStep t op).1) := by
  rcases linkTab_step t op with e | e | ⟨q, e⟩
  · rw [e]; exact h
  · rw [e]; exact wf_addRoot _ h
  · rw [e]; exact wf_addChild _ q h

theorem wf_run (ops : List TreeOp) : ∀ t, WF (linkTab t) → WF (linkTab (treeRun t ops)) := by
  induction ops with
  | nil => intro t h; simpa [treeRun] using h
  | cons op ops ih => intro t h; simpa [treeRun] using ih _ (wf_step t op h)

/-! ### what `Each` enumerates -/

theorem climb_succ_top (L : LinkTab) (k j c i : Nat) (cs : List Nat) (h : climb L k j = some c) (hc : L[c]? = some (some i, cs)) :
    climb L (k + 1) j = some i := by
  induction k generalizing j with
  | zero => simp only [climb, Option.some.injEq] at h; subst h; simp [climb, hc]
  | succ k ih =>
    simp only [climb] at h ⊢
    cases hj : L[j]? with
    | none => rw [hj] at h; cases h
    | some x =>
      obtain ⟨pr, cs'⟩ := x
      cases pr with
      | none => rw [hj] at h; cases h
      | some p => rw [hj] at h; simp only at h ⊢; exact ih p h

theorem climb_succ_split (L : LinkTab) (k j i : Nat) (h : climb L (k + 1) j = some i) :
    ∃ c cs, climb L k j = some c ∧ L[c]? = some (some i, cs) := by
  induction k generalizing j with
  | zero =>
    simp only [climb] at h
    cases hj : L[j]? with
    | none => rw [hj] at h; cases h
    | some x =>
      obtain ⟨pr, cs⟩ := x
      cases pr with
      | none => rw [hj] at h; cases h
      | some p => rw [hj] at h; simp only [Option.some.injEq] at h; subst h; exact ⟨j, cs, rfl, hj⟩
  | succ k ih =>
    rw [climb] at h
    cases hj : L[j]? with
    | none => rw [hj] at h; cases h
    | some x =>
      obtain ⟨pr, cs⟩ := x
      cases pr with
      | none => rw [hj] at h; cases h
      | some p =>
        rw [hj] at h; simp only at h
        obtain ⟨c, cs', h1, h2⟩ := ih p h
        exact ⟨c, cs', by simp only [climb, hj, h1], h2⟩

/-- climbing goes to strictly earlier loggers -/
theorem climb_lt (L : LinkTab) (h : WF L) (k j i : Nat) (hc : climb L (k + 1) j = some i) : i < j := by
  induction k generalizing j with
  | zero =>
    simp only [climb] at hc
    cases hj : L[j]? with
    | none => rw [hj] at hc; cases hc
    | some x =>
      obtain ⟨pr, cs⟩ := x
      cases pr with
      | none => rw [hj] at hc; cases hc
      | some p => rw [hj] at hc; simp only [Option.some.injEq] at hc; subst hc; exact h.earlier j p cs hj
  | succ k ih =>
    rw [climb] at hc
    cases hj : L[j]? with
    | none => rw [hj] at hc; cases hc
    | some x =>
      obtain ⟨pr, cs⟩ := x
      cases pr with
      | none => rw [hj] at hc; cases hc
      | some p =>
        rw [hj] at hc; simp only at hc
        have := ih p hc
        have := h.earlier j p cs hj
        omega

theorem climb_add (L : LinkTab) (a b j m : Nat) (h : climb L a j = some m) : climb L (a + b) j = climb L b m := by
  induction a generalizing j with
  | zero => simp only [climb, Option.some.injEq] at h; subst h; simp
  | succ a ih =>
    rw [climb] at h
    have e : a + 1 + b = (a + b) + 1 := by omega
    rw [e, climb]
    cases hj : L[j]? with
    | none => rw [hj] at h; cases h
    | some x =>
      obtain ⟨pr, cs⟩ := x
      cases pr with
      | none => rw [hj] at h; cases h
      | some p => rw [hj] at h; simp only at h ⊢; exact ih p h

/-- the number of steps from j up to i is determined -/
theorem climb_unique (L : LinkTab) (h : WF L) (a b j i : Nat) (ha : climb L a j = some i) (hb : climb L b j = some i) : a = b := by
  rcases Nat.lt_trichotomy a b with hlt | heq | hgt
  · obtain ⟨k, rfl⟩ : ∃ k, b = a + (k + 1) := ⟨b - a - 1, by omega⟩
    rw [climb_add L a (k + 1) j i ha] at hb
    have := climb_lt L h k i i hb
    omega
  · exact heq
  · obtain ⟨k, rfl⟩ : ∃ k, a = b + (k + 1) := ⟨a - b - 1, by omega⟩
    rw [climb_add L b (k + 1) j i hb] at ha
    have := climb_lt L h k i i ha
    omega

/-- soundness: whatever `Each` reports is a descendant, at its true depth -/
theorem eachL_sound (L : LinkTab) (h : WF L) (fuel i d j dj : Nat) (hm : (j, dj) ∈ eachL L fuel i d) :
    ∃ k, dj = d + k ∧ climb L k j = some i := by
  induction fuel generalizing i d with
  | zero =>
    simp only [eachL, List.mem_singleton, Prod.mk.injEq] at hm
    exact ⟨0, by omega, by simp [climb, hm.1]⟩
  | succ fuel ih =>
    simp only [eachL] at hm
    cases hi : L[i]? with
    | none =>
      rw [hi] at hm
      simp only [List.mem_singleton, Prod.mk.injEq] at hm
      exact ⟨0, by omega, by simp [climb, hm.1]⟩
    | some x =>
      obtain ⟨pr, cs⟩ := x
      rw [hi] at hm
      simp only [List.mem_cons, Prod.mk.injEq, List.mem_flatMap] at hm
      rcases hm with hm | ⟨c, hc, hm⟩
      · exact ⟨0, by omega, by simp [climb, hm.1]⟩
      · obtain ⟨k, hk1, hk2⟩ := ih c (d + 1) hm
        obtain ⟨cs', hcs'⟩ := h.childOf i pr cs hi c hc
        exact ⟨k + 1, by omega, climb_succ_top L k j c i cs' hk2 hcs'⟩

/-- completeness: every descendant is reported, at its depth (given enough fuel) -/
theorem eachL_complete (L : LinkTab) (h : WF L) (k : Nat) : ∀ (fuel i d j : Nat), k ≤ fuel → climb L k j = some i →
    (j, d + k) ∈ eachL L fuel i d := by
  induction k with
  | zero =>
    intro fuel i d j _ hc
    simp only [climb, Option.some.injEq] at hc; subst hc
    cases fuel with
    | zero => simp [eachL]
    | succ fuel => simp only [eachL]; cases L[j]? <;> simp
  | succ k ih =>
    intro fuel i d j hf hc
    obtain ⟨fuel', rfl⟩ : ∃ f, fuel = f + 1 := ⟨fuel - 1, by omega⟩
    obtain ⟨c, cs, h1, h2⟩ := climb_succ_split L k j i hc
    obtain ⟨pr, cs', hi, hmem⟩ := h.listed c i cs h2
    simp only [eachL, hi, List.mem_cons, List.mem_flatMap]
    right
    refine ⟨c, hmem, ?_⟩
    have := ih fuel' c (d + 1) j (by omega) h1
    have e : d + 1 + k = d + (k + 1) := by omega
    rw [e] at this; exact this

theorem nodup_flatMap_of {α β} (f : α → List β) (cs : List α) (hn : cs.Nodup) (h1 : ∀ c ∈ cs, (f c).Nodup)
    (h2 : ∀ a ∈ cs, ∀ b ∈ cs, a ≠ b → ∀ x, x ∈ f a → x ∉ f b) : (cs.flatMap f).Nodup := by
  induction cs with
  | nil => simp
  | cons c cs ih =>
    simp only [List.flatMap_cons, List.nodup_append]
    have hn' := List.nodup_cons.mp hn
    refine ⟨h1 c (by simp), ih hn'.2 (fun a ha => h1 a (by simp [ha])) (fun a ha b hb => h2 a (by simp [ha]) b (by simp [hb])), ?_⟩
    intro x hx y hy hxy
    subst hxy
    obtain ⟨b, hb, hxb⟩ := List.mem_flatMap.mp hy
    exact h2 c (by simp) b (by simp [hb]) (fun e => hn'.1 (e ▸ hb)) x hx hxb

/-- every logger is reported at most once -/
theorem eachL_nodup (L : LinkTab) (h : WF L) (fuel i d : Nat) : ((eachL L fuel i d).map (·.1)).Nodup := by
  induction fuel generalizing i d with
  | zero => simp [eachL]
  | succ fuel ih =>
    simp only [eachL]
    cases hi : L[i]? with
    | none => simp
    | some x =>
      obtain ⟨pr, cs⟩ := x
      simp only [List.map_cons, List.map_flatMap, List.nodup_cons]
      constructor
      · intro hmem
        obtain ⟨c, hc, hx⟩ := List.mem_flatMap.mp hmem
        obtain ⟨⟨j, dj⟩, hjm, hje⟩ := List.mem_map.mp hx
        simp only at hje; subst hje
        obtain ⟨k, _, hk⟩ := eachL_sound L h fuel c (d + 1) j dj hjm
        obtain ⟨cs', hcs'⟩ := h.childOf j pr cs hi c hc
        have := climb_lt L h k j j (climb_succ_top L k j c j cs' hk hcs')
        omega
      · apply nodup_flatMap_of _ cs (h.nodup i pr cs hi) (fun c _ => ih c (d + 1))
        intro a ha b hb hab x hxa hxb
        obtain ⟨⟨j1, d1⟩, hm1, he1⟩ := List.mem_map.mp hxa
        obtain ⟨⟨j2, d2⟩, hm2, he2⟩ := List.mem_map.mp hxb
        simp only at he1 he2; rw [he1] at hm1; rw [he2] at hm2
        obtain ⟨k1, _, hk1⟩ := eachL_sound L h fuel a (d + 1) x d1 hm1
        obtain ⟨k2, _, hk2⟩ := eachL_sound L h fuel b (d + 1) x d2 hm2
        obtain ⟨csa, hcsa⟩ := h.childOf i pr cs hi a ha
        obtain ⟨csb, hcsb⟩ := h.childOf i pr cs hi b hb
        have t1 := climb_succ_top L k1 x a i csa hk1 hcsa
        have t2 := climb_succ_top L k2 x b i csb hk2 hcsb
        have hk : k1 + 1 = k2 + 1 := climb_unique L h _ _ x i t1 t2
        have : k1 = k2 := by omega
        subst this
        rw [hk1] at hk2
        exact hab (Option.some.inj hk2)

theorem climb_le (L : LinkTab) (h : WF L) (k j i : Nat) (hc : climb L k j = some i) : i + k ≤ j := by
  cases k with
  | zero => simp only [climb, Option.some.injEq] at hc; omega
  | succ k =>
    induction k generalizing j with
    | zero => have := climb_lt L h 0 j i hc; omega
    | succ k ih =>
      rw [climb] at hc
      cases hj : L[j]? with
      | none => rw [hj] at hc; cases hc
      | some x =>
        obtain ⟨pr, cs⟩ := x
        cases pr with
        | none => rw [hj] at hc; cases hc
        | some p =>
          rw [hj] at hc; simp only at hc
          have := ih p hc
          have := h.earlier j p cs hj
          omega

theorem climb_in_range (L : LinkTab) (k j i : Nat) (hc : climb L (k + 1) j = some i) : j < L.length := by
  rw [climb] at hc
  cases hj : L[j]? with
  | none => rw [hj] at hc; cases hc
  | some x => exact getElem?_lt hj

/-- **`Each` in a well-formed table**: with as much fuel as there are loggers it reports exactly the
    loggers from which i is reached by parent links, each once, with the number of links as depth -/
theorem eachL_spec (L : LinkTab) (h : WF L) (i : Nat) :
    (∀ j dj, (j, dj) ∈ eachL L L.length i 0 ↔ climb L dj j = some i) ∧ ((eachL L L.length i 0).map (·.1)).Nodup := by
  refine ⟨fun j dj => ⟨?_, ?_⟩, eachL_nodup L h _ i 0⟩
  · intro hm
    obtain ⟨k, hk, hc⟩ := eachL_sound L h _ i 0 j dj hm
    have : dj = k := by omega
    subst this; exact hc
  · intro hc
    have hle : dj ≤ L.length := by
      cases dj with
      | zero => omega
      | succ k =>
        have h1 := climb_le L h _ j i hc
        have h2 := climb_in_range L k j i hc
        omega
    have := eachL_complete L h dj L.length i 0 j hle hc
    simpa using this

/-! ### `Sublogger(name)` -/

def hasName (t : Tree) (j : Nat) (nm : Bytes) : Prop := ∃ n, t[j]? = some n ∧ (n.name == nm) = true

/-- what `Sublogger` returns carries the name and is the receiver or one of its descendants -/
theorem sublogger_sound (t : Tree) (h : WF (linkTab t)) (nm : Bytes) (fuel i j : Nat)
    (hs : subloggerOf t fuel i nm = some j) : hasName t j nm ∧ ∃ k, climb (linkTab t) k j = some i := by
  induction fuel generalizing i with
  | zero =>
    simp only [subloggerOf] at hs
    cases hi : t[i]? with
    | none => rw [hi] at hs; cases hs
    | some n =>
      rw [hi] at hs
      simp only at hs
      split at hs
      · rename_i hn
        simp only [Option.some.injEq] at hs; subst hs
        exact ⟨⟨n, hi, hn⟩, 0, rfl⟩
      · cases hs
  | succ fuel ih =>
    simp only [subloggerOf] at hs
    cases hi : t[i]? with
    | none => rw [hi] at hs; cases hs
    | some n =>
      rw [hi] at hs
      simp only at hs
      split at hs
      · rename_i hn
        simp only [Option.some.injEq] at hs; subst hs
        exact ⟨⟨n, hi, hn⟩, 0, rfl⟩
      · obtain ⟨kc, hkc, hfound⟩ := List.exists_of_findSome?_eq_some hs
        obtain ⟨hname, k, hk⟩ := ih kc.2 hfound
        have hrow : (linkTab t)[i]? = some (n.parent, n.children.map (fun x : Bytes × Nat => x.2)) := linkTab_get t i n hi
        obtain ⟨cs', hcs'⟩ := h.childOf i _ _ hrow kc.2 (List.mem_map.mpr ⟨kc, hkc, rfl⟩)
        exact ⟨hname, k + 1, climb_succ_top _ k j kc.2 i cs' hk hcs'⟩

/-- if `Sublogger` finds nothing, nothing that `Each` would report carries the name -/
theorem sublogger_none (t : Tree) (nm : Bytes) (fuel i d : Nat) (hs : subloggerOf t fuel i nm = none) :
    ∀ j dj, (j, dj) ∈ eachOf t fuel i d → ¬ hasName t j nm := by
  induction fuel generalizing i d with
  | zero =>
    intro j dj hm ⟨n, hn, hname⟩
    simp only [eachOf, List.mem_singleton, Prod.mk.injEq] at hm
    obtain ⟨rfl, _⟩ := hm
    simp only [subloggerOf, hn, hname, ↓reduceIte] at hs
    cases hs
  | succ fuel ih =>
    intro j dj hm ⟨n, hn, hname⟩
    simp only [subloggerOf] at hs
    simp only [eachOf] at hm
    cases hi : t[i]? with
    | none =>
      rw [hi] at hm
      simp only [List.mem_singleton, Prod.mk.injEq] at hm
      obtain ⟨rfl, _⟩ := hm
      rw [hi] at hn; cases hn
    | some ni =>
      rw [hi] at hs hm
      simp only at hs
      split at hs
      · cases hs
      · rename_i hne
        simp only [List.mem_cons, Prod.mk.injEq, List.mem_flatMap] at hm
        rcases hm with ⟨rfl, _⟩ | ⟨kc, hkc, hm⟩
        · rw [hi] at hn
          simp only [Option.some.injEq] at hn; subst hn
          exact hne hname
        · have hnone := (List.findSome?_eq_none_iff.mp hs) kc hkc
          exact ih kc.2 (d + 1) hnone j dj hm ⟨n, hn, hname⟩

end Logg
