/-
  Logg.Lemmas.Layout — removing the escape sequences from a colored record leaves exactly
  `colorLayout` (mutual induction over values and attribute lists; groups at any depth).
-/
import Logg.Model.Layout
import Logg.Lemmas.Strip
import Logg.Lemmas.Sgr

namespace Logg
open Logg.Lemmas

theorem strips_pre {a b b' : Bytes} (ha : Strips a []) (hb : Strips b b') : Strips (a ++ b) b' := by
  simpa using strips_app ha hb
theorem strips_post {a a' b : Bytes} (ha : Strips a a') (hb : Strips b []) : Strips (a ++ b) a' := by
  simpa using strips_app ha hb

theorem strips_echoColorAndBg (a b : Int) (ha : -1 ≤ a) (hb : -1 ≤ b) : Strips (echoColorAndBg a b) [] :=
  strips_pre (strips_echoColor a ha) (strips_echoColor b hb)

theorem strips_lit (bs : Bytes) (h : noC0B bs = true) : Strips bs bs := strips_noC0 bs (noC0_of_B h)

theorem strips_lf : Strips [10] [10] := strips_plain [10] (by decide)

theorem strips_wrap (text : Bytes) (clr bg : Int) (hc : -1 ≤ clr) (hb : -1 ≤ bg) (ht : NoC0 text) :
    Strips (wrapColorAndBg text clr bg) text := by
  unfold wrapColorAndBg
  exact strips_post (strips_pre (strips_pre (strips_echoColor bg hb) (strips_echoColor clr hc)) (strips_noC0 _ ht)) strips_reset

/-- scalars (everything but groups): only the red of an error disappears -/
theorem scalar_strips (c : EncCfg) (hc : ColorCfg c) (fuel : Nat) (pfx : Bytes) (v : Val)
    (hok : atomsOK true fuel v = true) (hng : ∀ items, v ≠ .group items) :
    Strips (encVal c fuel pfx v) (plainVal c fuel pfx v) := by
  have hq := quote_color_noC0 c hc
  have hj := color_json c hc
  have hn := color_noColor c hc
  cases v with
  | nil => cases fuel <;> (simp only [encVal, plainVal, hj]; exact strips_lit _ (by decide))
  | str s => cases fuel <;> (simp only [encVal, plainVal]; exact strips_noC0 _ (hq s))
  | bool b => cases fuel <;> (simp only [encVal, plainVal]; exact strips_noC0 _ (boolText_noC0 b))
  | int i => cases fuel <;> (simp only [encVal, plainVal]; exact strips_noC0 _ (intDigits_noC0 i))
  | uint n => cases fuel <;> (simp only [encVal, plainVal]; exact strips_noC0 _ (jsonQuoted_noC0 c _ (natDigits_noC0 n)))
  | float t => cases fuel <;> (simp only [encVal, plainVal]; simp only [atomsOK] at hok; exact strips_noC0 _ (jsonQuoted_noC0 c _ (noC0_of_B hok)))
  | complex re im =>
    cases fuel <;> (simp only [encVal, plainVal]; simp only [atomsOK, Bool.and_eq_true] at hok
                    exact strips_noC0 _ (jsonQuoted_noC0 c _ (complexText_noC0 _ _ (noC0_of_B hok.1) (noC0_of_B hok.2))))
  | dur t => cases fuel <;> (simp only [encVal, plainVal]; exact strips_noC0 _ (hq t))
  | time t => cases fuel <;> (simp only [encVal, plainVal]; simp only [atomsOK] at hok; exact strips_noC0 _ (timeText_noC0 c _ (noC0_of_B hok)))
  | tstamp t => cases fuel <;> (simp only [encVal, plainVal]; simp only [atomsOK] at hok; exact strips_noC0 _ (tstampText_noC0 c _ (noC0_of_B hok)))
  | err m =>
    cases fuel <;> (
      simp only [encVal, plainVal, hc.color]
      exact strips_post (strips_pre (strips_esc 31 (by decide)) (strips_noC0 _ (hq m))) strips_reset)
  | bytes bs => cases fuel <;> (simp only [encVal, plainVal]; exact strips_noC0 _ (hq bs))
  | strs xs => cases fuel <;> (simp only [encVal, plainVal]; exact strips_noC0 _ (bracket_noC0 _ (by intro x hx; simp only [List.mem_map] at hx; obtain ⟨y, _, rfl⟩ := hx; exact hq y)))
  | bools xs => cases fuel <;> (simp only [encVal, plainVal]; exact strips_noC0 _ (bracket_noC0 _ (by intro x hx; simp only [List.mem_map] at hx; obtain ⟨y, _, rfl⟩ := hx; exact boolText_noC0 y)))
  | ints xs => cases fuel <;> (simp only [encVal, plainVal]; exact strips_noC0 _ (bracket_noC0 _ (by intro x hx; simp only [List.mem_map] at hx; obtain ⟨y, _, rfl⟩ := hx; exact intDigits_noC0 y)))
  | uints xs => cases fuel <;> (simp only [encVal, plainVal]; exact strips_noC0 _ (bracket_noC0 _ (by intro x hx; simp only [List.mem_map] at hx; obtain ⟨y, _, rfl⟩ := hx; exact natDigits_noC0 y)))
  | floats xs =>
    cases fuel <;> (simp only [encVal, plainVal]; simp only [atomsOK] at hok
                    exact strips_noC0 _ (bracket_noC0 _ (by intro x hx; simp only [List.mem_map] at hx; obtain ⟨y, hy, rfl⟩ := hx; exact jsonQuoted_noC0 c _ (all_noC0 hok y hy))))
  | complexes xs =>
    cases fuel <;> (simp only [encVal, plainVal]; simp only [atomsOK, List.all_eq_true, Bool.and_eq_true] at hok
                    exact strips_noC0 _ (bracket_noC0 _ (by
                      intro x hx; simp only [List.mem_map] at hx; obtain ⟨y, hy, rfl⟩ := hx
                      exact jsonQuoted_noC0 c _ (complexText_noC0 _ _ (noC0_of_B (hok y hy).1) (noC0_of_B (hok y hy).2)))))
  | durs xs => cases fuel <;> (simp only [encVal, plainVal]; exact strips_noC0 _ (bracket_noC0 _ (by intro x hx; simp only [List.mem_map] at hx; obtain ⟨y, _, rfl⟩ := hx; exact hq y)))
  | times xs =>
    cases fuel <;> (simp only [encVal, plainVal]; simp only [atomsOK] at hok
                    exact strips_noC0 _ (bracket_noC0 _ (by intro x hx; simp only [List.mem_map] at hx; obtain ⟨y, hy, rfl⟩ := hx; exact timeText_noC0 c _ (all_noC0 hok y hy))))
  | fallback t => cases fuel <;> (simp only [encVal, plainVal]; exact strips_noC0 _ (hq t))
  | textm t fb => cases fuel <;> (simp only [encVal, plainVal]; split <;> exact strips_noC0 _ (hq _))
  | group items => exact absurd rfl (hng items)

def AttrsStmtS (c : EncCfg) (fuel : Nat) : Prop :=
  ∀ (as : List Attr) (pfx : Bytes), (∀ a ∈ as, attrOK true fuel a = true) → NoC0 pfx →
    Strips (encAttrs c fuel pfx false as) (plainAttrs c fuel pfx as)

def ValStmtS (c : EncCfg) (fuel : Nat) : Prop :=
  ∀ (v : Val) (pfx : Bytes), atomsOK true fuel v = true → NoC0 pfx → Strips (encVal c fuel pfx v) (plainVal c fuel pfx v)

theorem attrs_of_vals_S (c : EncCfg) (hc : ColorCfg c) (fuel : Nat) (hv : ValStmtS c fuel) : AttrsStmtS c fuel := by
  have hj := color_json c hc
  have hn := color_noColor c hc
  intro as
  induction as with
  | nil => intro pfx _ _; simp only [encAttrs, plainAttrs]; exact strips_nil
  | cons a rest ih =>
    intro pfx hall hp
    have hrest : ∀ x ∈ rest, attrOK true fuel x = true := fun x hx => hall x (by simp [hx])
    cases a with
    | none => simp only [encAttrs, plainAttrs]; exact ih pfx hrest hp
    | some kv =>
      obtain ⟨k, isG, v⟩ := kv
      have ha := hall (some (k, isG, v)) (by simp)
      simp only [attrOK, Bool.and_eq_true, Bool.or_eq_true, Bool.not_eq_true'] at ha
      have hk : NoC0 k := by
        rcases ha.1 with h | h
        · cases h
        · exact noC0_of_B h
      have hdot : NoC0 (dotPrefix k pfx) := dotPrefix_noC0 k pfx hk hp
      simp only [encAttrs, plainAttrs, hj, hn, Bool.false_eq_true, if_false, Bool.not_false, Bool.and_true]
      have hsep : Strips ([32] ++ echoColorAndBg c.clr c.bg) [32] :=
        strips_post (strips_lit _ (by decide)) (strips_echoColorAndBg _ _ hc.clr hc.bg)
      have hcolon : c.colon = [61] := by simp [EncCfg.colon, hj]
      have hkey : Strips (if isG = true then []
          else echoColorAndBg 90 (-1) ++ dotPrefix k pfx ++ echoColorAndBg c.clr c.bg ++ c.colon)
          (if isG = true then [] else dotPrefix k pfx ++ [61]) := by
        split
        · exact strips_nil
        · rw [hcolon]
          exact strips_app (strips_post (strips_pre (strips_echoColorAndBg _ _ (by decide) (by decide)) (strips_noC0 _ hdot))
            (strips_echoColorAndBg _ _ hc.clr hc.bg)) (strips_lit _ (by decide))
      have hval := hv v _ ha.2 hdot
      exact strips_app (strips_app (strips_app hsep hkey) hval) (ih pfx hrest hp)

theorem vals_zero_S (c : EncCfg) (hc : ColorCfg c) : ValStmtS c 0 := by
  intro v pfx hok _
  by_cases hg : ∃ items, v = .group items
  · obtain ⟨items, rfl⟩ := hg; simp only [encVal, plainVal]; exact strips_nil
  · exact scalar_strips c hc 0 pfx v hok (fun items e => hg ⟨items, e⟩)

theorem vals_succ_S (c : EncCfg) (hc : ColorCfg c) (fuel : Nat) (ha : AttrsStmtS c fuel) : ValStmtS c (fuel + 1) := by
  intro v pfx hok hp
  by_cases hg : ∃ items, v = .group items
  · obtain ⟨items, rfl⟩ := hg
    simp only [atomsOK, List.all_eq_true] at hok
    have hall : ∀ a ∈ prepAttrs items, attrOK true fuel a = true := by
      intro a ha'
      have := hok a (prepAttrs_subset items a ha')
      cases a with
      | none => rfl
      | some kv => obtain ⟨k, g, v⟩ := kv; simpa [attrOK] using this
    simp only [encVal, plainVal, color_json c hc, color_noColor c hc, Bool.false_eq_true, if_false]
    exact strips_post (ha _ pfx hall hp) strips_reset
  · exact scalar_strips c hc (fuel + 1) pfx v hok (fun items e => hg ⟨items, e⟩)

theorem vals_all_S (c : EncCfg) (hc : ColorCfg c) : ∀ fuel, ValStmtS c fuel
  | 0 => vals_zero_S c hc
  | fuel + 1 => vals_succ_S c hc fuel (attrs_of_vals_S c hc fuel (vals_all_S c hc fuel))

theorem attrs_all_S (c : EncCfg) (hc : ColorCfg c) (fuel : Nat) : AttrsStmtS c fuel :=
  attrs_of_vals_S c hc fuel (vals_all_S c hc fuel)

/-- the colours of a record do not reach the plain rendering: it depends on the format and the
    printable-rune table only -/
theorem plain_cfg_irrelevant (c d : EncCfg) (hf : c.fmt = d.fmt) (hp : c.isPrint = d.isPrint) :
    ∀ fuel, (∀ pfx v, plainVal c fuel pfx v = plainVal d fuel pfx v) ∧
            (∀ pfx as, plainAttrs c fuel pfx as = plainAttrs d fuel pfx as) := by
  have hq : ∀ s, c.quote s = d.quote s := by intro s; simp [EncCfg.quote, EncCfg.json, hf, hp]
  have hj : c.json = d.json := by simp [EncCfg.json, hf]
  have hn : c.noColor = d.noColor := by simp [EncCfg.noColor, hf]
  have hqf : c.quote = d.quote := funext hq
  have hjq : jsonQuoted c = jsonQuoted d := by funext t; simp [jsonQuoted, hj]
  have htt : timeText c = timeText d := by funext t; simp [timeText, hn]
  have scalars : ∀ fuel pfx v, (∀ items, v ≠ .group items) → plainVal c fuel pfx v = plainVal d fuel pfx v := by
    intro fuel pfx v hng
    cases v with
    | group items => exact absurd rfl (hng items)
    | _ => cases fuel <;> simp only [plainVal, encVal, hqf, hjq, htt, hj, hn, tstampText, hf]
  have attrs : ∀ fuel, (∀ pfx v, plainVal c fuel pfx v = plainVal d fuel pfx v) →
      ∀ pfx as, plainAttrs c fuel pfx as = plainAttrs d fuel pfx as := by
    intro fuel hv pfx as
    induction as with
    | nil => simp only [plainAttrs]
    | cons a rest ih =>
      cases a with
      | none => simp only [plainAttrs]; exact ih
      | some kv => obtain ⟨k, g, v⟩ := kv; simp only [plainAttrs, hv, ih]
  intro fuel
  induction fuel with
  | zero =>
    have hv : ∀ pfx v, plainVal c 0 pfx v = plainVal d 0 pfx v := by
      intro pfx v
      by_cases hg : ∃ items, v = .group items
      · obtain ⟨items, rfl⟩ := hg; simp only [plainVal]
      · exact scalars 0 pfx v (fun items e => hg ⟨items, e⟩)
    exact ⟨hv, attrs 0 hv⟩
  | succ n ih =>
    have hv : ∀ pfx v, plainVal c (n + 1) pfx v = plainVal d (n + 1) pfx v := by
      intro pfx v
      by_cases hg : ∃ items, v = .group items
      · obtain ⟨items, rfl⟩ := hg; simp only [plainVal]; exact ih.2 _ _
      · exact scalars (n + 1) pfx v (fun items e => hg ⟨items, e⟩)
    exact ⟨hv, attrs (n + 1) hv⟩

theorem strips_join (xs : List Bytes) (f g : Bytes → Bytes) (h : ∀ x ∈ xs, Strips (f x) (g x)) :
    Strips (joinWith [10] (xs.map f)) (joinWith [10] (xs.map g)) := by
  match xs, h with
  | [], _ => exact strips_nil
  | [x], h => simpa [joinWith] using h x (by simp)
  | x :: y :: rest, h =>
    simp only [List.map_cons, joinWith]
    have := strips_join (y :: rest) f g (fun z hz => h z (by simp [hz]))
    simp only [List.map_cons] at this
    exact strips_app (strips_app (h x (by simp)) (strips_lf)) this

/-- **The colored record without its escape sequences is the layout.** -/
theorem colored_record_layout (isPrint : Nat → Bool) (hsafe : PrintSafe isPrint) (p : Presentation) (depth : Nat)
    (r : Record) (out tag : Bytes) (h : encodeRecord .color isPrint p depth r = some out)
    (hnb : (r.lvl == Lv.always && isBlank r.msg) = false)
    (htag : p.reg.shortTag r.lvl p.tagWidth = some tag)
    (hi : ColorInputs p r depth tag) :
    stripSgr out = colorLayout isPrint p.minWidth depth tag r := by
  unfold encodeRecord at h
  rw [if_neg (by simp [hnb])] at h
  simp only [htag] at h
  by_cases hn : needsTranslate (rightPad (splitFirstRest r.msg).1 p.minWidth) = true
  · simp [hn] at h
  simp only [hn, Bool.false_eq_true, if_false, Option.some.injEq] at h
  subst h
  apply stripSgr_of
  obtain ⟨hfirst, hrest⟩ := splitFirstRest_ok r.msg hi.msg
  have hclr0 := hi.clr
  have hbg0 := hi.bg
  generalize (levelColors p r.lvl).1 = clr at hclr0 ⊢
  generalize (levelColors p r.lvl).2 = bg at hbg0 ⊢
  have hcfg : ColorCfg ({ fmt := .color, isPrint := isPrint, clr := clr, bg := bg } : EncCfg) :=
    ⟨rfl, hsafe, hclr0, hbg0⟩
  unfold colorLayout
  simp only
  have s_time : Strips (esc 32 ++ r.ts ++ [124, 32]) (r.ts ++ [124, 32]) :=
    strips_app (strips_pre (strips_esc 32 (by decide)) (strips_noC0 _ hi.ts)) (strips_lit _ (by decide))
  have s_logger : Strips (if r.name.isEmpty = true then [] else echoColorAndBg 37 (-1) ++ r.name ++ escReset ++ [32])
      (if r.name.isEmpty = true then [] else r.name ++ [32]) := by
    split
    · exact strips_nil
    · exact strips_app (strips_post (strips_pre (strips_echoColorAndBg 37 (-1) (by decide) (by decide)) (strips_noC0 _ hi.name))
        strips_reset) (strips_lit _ (by decide))
  have s_sev : Strips (echoColorAndBg clr bg ++ [91] ++ tag ++ [93] ++ escReset ++ [32]) ([91] ++ tag ++ [93, 32]) := by
    have := strips_app (strips_post (strips_app (strips_app (strips_pre (strips_echoColorAndBg clr bg hclr0 hbg0) (strips_lit [91] (by decide)))
      (strips_noC0 _ hi.tag)) (strips_lit [93] (by decide))) strips_reset) (strips_lit [32] (by decide))
    simpa using this
  have s_first : Strips (wrapColorAndBg (rightPad (splitFirstRest r.msg).1 p.minWidth) clr bg)
      (rightPad (splitFirstRest r.msg).1 p.minWidth) :=
    strips_wrap _ clr bg hclr0 hbg0 (rightPad_noC0 _ _ hfirst)
  have s_attrs : Strips (encTopAttrs { fmt := .color, isPrint := isPrint, clr := clr, bg := bg } depth r.attrs)
      (plainAttrs { fmt := .color, isPrint := isPrint } depth [] (prepAttrs r.attrs)) := by
    unfold encTopAttrs
    simp only [color_noColor _ hcfg, Bool.false_eq_true, if_false]
    rw [← (plain_cfg_irrelevant { fmt := .color, isPrint := isPrint, clr := clr, bg := bg } { fmt := .color, isPrint := isPrint } rfl rfl depth).2]
    apply strips_post _ strips_reset
    apply attrs_all_S _ hcfg depth _ []
    · intro a ha; exact hi.attrs a (prepAttrs_subset r.attrs a ha)
    · exact noC0_nil
  have s_caller : Strips (match r.caller with
        | none => []
        | some (file, line, _, fnShown) => [32] ++ file ++ [58] ++ intDigits line ++ [32] ++ esc 90 ++ fnShown ++ escReset ++ escReset)
      (match r.caller with
        | none => []
        | some (file, line, _, fnShown) => [32] ++ file ++ [58] ++ intDigits line ++ [32] ++ fnShown) := by
    cases hc : r.caller with
    | none => exact strips_nil
    | some q =>
      obtain ⟨file, line, fn, shown⟩ := q
      obtain ⟨hf, hs⟩ := hi.caller file line fn shown hc
      simp only
      exact strips_post (strips_post (strips_app (strips_post (strips_app (strips_app (strips_app (strips_app (strips_lit [32] (by decide)) (strips_noC0 _ hf))
        (strips_lit [58] (by decide))) (strips_noC0 _ (intDigits_noC0 line))) (strips_lit [32] (by decide)))
        (strips_esc 90 (by decide))) (strips_noC0 _ hs)) strips_reset) strips_reset
  have s_rest : Strips (if (splitFirstRest r.msg).2.1.isEmpty = true then []
        else [10] ++ (match splitLines (splitFirstRest r.msg).2.1 with
            | [l] => List.replicate 4 32 ++ l
            | ls => joinWith [10] (ls.map fun l => wrapColorAndBg (List.replicate 4 32 ++ l) clr bg)) ++
          (if (splitFirstRest r.msg).2.2 = true then [10] else []))
      (if (splitFirstRest r.msg).2.1.isEmpty = true then []
        else [10] ++ joinWith [10] ((splitLines (splitFirstRest r.msg).2.1).map indent4) ++
          (if (splitFirstRest r.msg).2.2 = true then [10] else [])) := by
    split
    · exact strips_nil
    · have hlines := splitLines_ok _ hrest
      have hind : ∀ l ∈ splitLines (splitFirstRest r.msg).2.1, NoC0 (List.replicate 4 32 ++ l) := by
        intro l hl
        apply noC0_append _ (hlines l hl)
        intro c hc; have := List.eq_of_mem_replicate hc; subst this; decide
      apply strips_app (strips_app (strips_lf) _)
      · split
        · exact strips_lf
        · exact strips_nil
      · split
        · rename_i l heq
          rw [heq]
          simp only [List.map_cons, List.map_nil, joinWith, indent4]
          exact strips_noC0 _ (hind l (by rw [heq]; simp))
        · apply strips_join
          intro x hx
          exact strips_wrap _ clr bg hclr0 hbg0 (hind x hx)
  have := strips_app (strips_app (strips_app (strips_app (strips_app (strips_app (strips_app s_time s_logger) s_sev) s_first) s_attrs) s_caller) s_rest)
    (strips_lf)
  simp only [List.append_assoc] at this ⊢
  exact this

end Logg
