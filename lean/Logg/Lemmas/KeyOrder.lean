/- The byte-wise key order is a total order; consequences for sort + dedupe (core Lean only). -/
import Logg.Model.Attrs

namespace Logg.Lemmas
open Logg

theorem bytesLe_refl (a : Bytes) : bytesLe a a = true := by
  induction a with
  | nil => rfl
  | cons x xs ih =>
    have : ¬ x < x := by rw [UInt8.lt_iff_toNat_lt]; omega
    simp [bytesLe, this, ih]

theorem bytesLe_total (a c : Bytes) : bytesLe a c = true ∨ bytesLe c a = true := by
  induction a generalizing c with
  | nil => left; rfl
  | cons x xs ih =>
    cases c with
    | nil => right; rfl
    | cons y ys =>
      simp only [bytesLe]
      by_cases h1 : x < y
      · simp [h1]
      · by_cases h2 : y < x
        · simp [h2]
        · have hxy : x = y := by
            apply UInt8.toNat_inj.mp
            rw [UInt8.lt_iff_toNat_lt] at h1 h2; omega
          subst hxy
          simp only [h1, ↓reduceIte, beq_self_eq_true]
          exact ih ys

theorem bytesLe_trans (a c d : Bytes) (h1 : bytesLe a c = true) (h2 : bytesLe c d = true) : bytesLe a d = true := by
  induction a generalizing c d with
  | nil => rfl
  | cons x xs ih =>
    cases c with
    | nil => simp [bytesLe] at h1
    | cons y ys =>
      cases d with
      | nil => simp [bytesLe] at h2
      | cons z zs =>
        simp only [bytesLe] at h1 h2 ⊢
        by_cases hxy : x < y
        · by_cases hyz : y < z
          · have : x < z := by rw [UInt8.lt_iff_toNat_lt] at *; omega
            simp [this]
          · by_cases hyz' : y = z
            · subst hyz'; simp [hxy]
            · simp [hyz, hyz'] at h2
        · by_cases hxy' : x = y
          · subst hxy'
            simp only [hxy, ↓reduceIte, beq_self_eq_true] at h1
            by_cases hyz : x < z
            · simp [hyz]
            · by_cases hyz' : x = z
              · subst hyz'
                simp only [hyz, ↓reduceIte, beq_self_eq_true] at h2 ⊢
                exact ih ys zs h1 h2
              · simp [hyz, hyz'] at h2
          · simp [hxy, hxy'] at h1

theorem bytesLe_antisymm (a c : Bytes) (h1 : bytesLe a c = true) (h2 : bytesLe c a = true) : a = c := by
  induction a generalizing c with
  | nil => cases c with
    | nil => rfl
    | cons y ys => simp [bytesLe] at h2
  | cons x xs ih =>
    cases c with
    | nil => simp [bytesLe] at h1
    | cons y ys =>
      simp only [bytesLe] at h1 h2
      by_cases hxy : x < y
      · have : ¬ y < x := by rw [UInt8.lt_iff_toNat_lt] at *; omega
        have hne : ¬ y = x := by intro e; subst e; rw [UInt8.lt_iff_toNat_lt] at hxy; omega
        simp [this, hne] at h2
      · by_cases hxy' : x = y
        · subst hxy'
          simp only [hxy, ↓reduceIte, beq_self_eq_true] at h1 h2
          rw [ih ys h1 h2]
        · simp [hxy, hxy'] at h1

theorem kvLe_trans (a c d : KV) : kvLe a c = true → kvLe c d = true → kvLe a d = true :=
  bytesLe_trans _ _ _

theorem kvLe_total (a c : KV) : (kvLe a c || kvLe c a) = true := by
  rcases bytesLe_total a.key c.key with h | h <;> simp [kvLe, h]

end Logg.Lemmas
