/-
  Logg.Lemmas.EncoderLogfmt — the logfmt reader applied to the logfmt encoder: for every record of the
  stated domain the line splits into exactly one token per field, `key=value`, in the order written
  (groups flattened under dotted keys at any depth).
-/
import Logg.Model.Encoder
import Logg.Lemmas.Logfmt
import Logg.Lemmas.EncoderClean
import Logg.Lemmas.SgrBase

namespace Logg
open Logg.Lemmas

/-! ### what the record must satisfy (texts written without escaping) -/

/-- an atom written bare: no space, no quote -/
def tokB (t : Bytes) : Bool := t.all fun c => c != 32 && c != 34
/-- a key (or dotted prefix): no space, no quote, no '=' -/
def keyB (k : Bytes) : Bool := k.all fun c => c != 32 && c != 34 && c != 61
/-- a text written raw between quotes: no quote, no backslash -/
def inqB (t : Bytes) : Bool := t.all fun c => c != 34 && c != 92

def isGroupVal : Val → Bool
  | .group _ => true
  | _ => false

def tokOK : (fuel : Nat) → Val → Bool
  | _, .float t => tokB t
  | _, .complex re im => tokB re && tokB im
  | _, .time t => inqB t
  | _, .tstamp t => inqB t
  | _, .floats xs => xs.all tokB
  | _, .complexes xs => xs.all fun p => tokB p.1 && tokB p.2
  | _, .times xs => xs.all inqB
  | 0, .group _ => true
  | fuel + 1, .group items => items.all fun a =>
      match a with
      | none => true
      | some (k, g, v) => keyB k && (!g || isGroupVal v) && tokOK fuel v
  | _, _ => true

def attrTokOK (fuel : Nat) : Attr → Bool
  | none => true
  | some (k, g, v) => keyB k && (!g || isGroupVal v) && tokOK fuel v

/-! ### what the reader is expected to find -/

def tokOf (p : Bytes × Bytes) : Bytes := p.1 ++ 61 :: p.2

mutual
/-- the pairs one attribute stands for -/
def flatVal (c : EncCfg) : (fuel : Nat) → (dotted : Bytes) → (g : Bool) → Val → List (Bytes × Bytes)
  | 0, dotted, g, .group _ => if g then [] else [(dotted, [])]
  | fuel + 1, dotted, g, .group items => (if g then [] else [(dotted, [])]) ++ flatAttrs c fuel dotted (prepAttrs items)
  | fuel, dotted, _, v => [(dotted, encVal c fuel dotted v)]

/-- (dotted key, value text) of every scalar, groups flattened, in the order written -/
def flatAttrs (c : EncCfg) : (fuel : Nat) → (pfx : Bytes) → List Attr → List (Bytes × Bytes)
  | _, _, [] => []
  | fuel, pfx, none :: rest => flatAttrs c fuel pfx rest
  | fuel, pfx, some (k, g, v) :: rest => flatVal c fuel (dotPrefix k pfx) g v ++ flatAttrs c fuel pfx rest
end

/-! ### basic pieces -/

def KeyOK (k : Bytes) : Prop := ∀ c ∈ k, c ≠ 32 ∧ c ≠ 34 ∧ c ≠ 61

theorem keyOK_of_B {k : Bytes} (h : keyB k = true) : KeyOK k := by
  intro c hc
  have := List.all_eq_true.mp h c hc
  simp only [Bool.and_eq_true, bne_iff_ne, ne_eq] at this
  exact ⟨this.1.1, this.1.2, this.2⟩

theorem keyOK_nil : KeyOK [] := by intro c hc; simp at hc

theorem keyOK_dot (k pfx : Bytes) (hk : KeyOK k) (hp : KeyOK pfx) : KeyOK (dotPrefix k pfx) := by
  unfold dotPrefix
  split
  · exact hk
  · intro c hc
    simp only [List.mem_append, List.mem_singleton] at hc
    rcases hc with (h | h) | h
    · exact hp c h
    · subst h; decide
    · exact hk c h

theorem bal_key {k : Bytes} (h : KeyOK k) : Bal k := bal_plain k (fun c hc => ⟨(h c hc).1, (h c hc).2.1⟩)

theorem bal_of_tokB {t : Bytes} (h : tokB t = true) : Bal t :=
  bal_plain t (fun c hc => by have := List.all_eq_true.mp h c hc; simpa using this)

theorem inq_of_B {t : Bytes} (h : inqB t = true) : Inq t :=
  inq_plain t (fun c hc => by have := List.all_eq_true.mp h c hc; simpa using this)

theorem bal_lit (t : Bytes) (h : tokB t = true := by decide) : Bal t := bal_of_tokB h

theorem bal_digits (f v : Nat) : Bal (decDigits f v) :=
  bal_plain _ (fun c hc => by
    have := decDigits_digit f v c hc
    constructor <;> (intro e; subst e; simp at this))

theorem bal_natDigits (n : Nat) : Bal (natDigits n) := bal_digits _ _

theorem bal_intDigits (i : Int) : Bal (intDigits i) := by
  unfold intDigits
  split
  · exact bal_append (a := [45]) (bal_lit _) (bal_natDigits _)
  · exact bal_natDigits _

theorem bal_boolText (b : Bool) : Bal (boolText b) := by
  cases b <;> exact bal_lit _

theorem bal_complexText (re im : Bytes) (h1 : tokB re = true) (h2 : tokB im = true) : Bal (complexText re im) := by
  have l40 : Bal ([40] : Bytes) := bal_lit _
  have l43 : Bal ([43] : Bytes) := bal_lit _
  have lend : Bal ([105, 41] : Bytes) := bal_lit _
  unfold complexText
  split
  · exact bal_append (bal_append (bal_append l40 (bal_of_tokB h1)) (bal_of_tokB h2)) lend
  · exact bal_append (bal_append (bal_append l40 (bal_of_tokB h1)) (bal_of_tokB h2)) lend
  · exact bal_append (bal_append (bal_append (bal_append l40 (bal_of_tokB h1)) l43) (bal_of_tokB h2)) lend

theorem bal_rawQuoted (t : Bytes) (h : inqB t = true) : Bal ([34] ++ t ++ [34]) := by
  have := bal_quoted t (inq_of_B h)
  simpa using this

theorem bal_joinWith (sep : Bytes) (hs : Bal sep) : ∀ (xs : List Bytes), (∀ x ∈ xs, Bal x) → Bal (joinWith sep xs)
  | [], _ => bal_nil
  | [x], h => by simp only [joinWith]; exact h x (by simp)
  | x :: y :: rest, h => by
    simp only [joinWith]
    exact bal_append (bal_append (h x (by simp)) hs) (bal_joinWith sep hs (y :: rest) (fun z hz => h z (by simp [hz])))

theorem bal_bracket (xs : List Bytes) (h : ∀ x ∈ xs, Bal x) : Bal (bracket xs) := by
  unfold bracket
  exact bal_append (bal_append (a := [91]) (bal_lit _) (bal_joinWith [44] (bal_lit _) xs h)) (bal_lit ([93] : Bytes))

/-- a logfmt configuration -/
structure LogfmtCfg (c : EncCfg) : Prop where
  fmt : c.fmt = .logfmt

theorem LogfmtCfg.json {c : EncCfg} (h : LogfmtCfg c) : c.json = false := by simp [EncCfg.json, h.fmt]
theorem LogfmtCfg.noColor {c : EncCfg} (h : LogfmtCfg c) : c.noColor = true := by simp [EncCfg.noColor, h.fmt]
theorem LogfmtCfg.quote {c : EncCfg} (h : LogfmtCfg c) (s : Bytes) : c.quote s = goQuote c.isPrint s := by
  simp [EncCfg.quote, quoteValue, h.json]
theorem LogfmtCfg.comma {c : EncCfg} (h : LogfmtCfg c) : c.comma = [32] := by simp [EncCfg.comma, h.json]
theorem LogfmtCfg.colon {c : EncCfg} (h : LogfmtCfg c) : c.colon = [61] := by simp [EncCfg.colon, h.json]
theorem LogfmtCfg.key {c : EncCfg} (h : LogfmtCfg c) (k : Bytes) : c.key k = k := by simp [EncCfg.key, h.json]

theorem bal_quote {c : EncCfg} (h : LogfmtCfg c) (s : Bytes) : Bal (c.quote s) := by
  rw [h.quote]; exact goQuote_bal _ _

theorem all_of_all {xs : List Bytes} {p : Bytes → Bool} (h : xs.all p = true) : ∀ x ∈ xs, p x = true :=
  fun x hx => List.all_eq_true.mp h x hx

/-- every scalar value is one balanced piece -/
theorem scalar_bal (c : EncCfg) (hc : LogfmtCfg c) (fuel : Nat) (pfx : Bytes) (v : Val)
    (hok : tokOK fuel v = true) (hng : isGroupVal v = false) : Bal (encVal c fuel pfx v) := by
  have hq := bal_quote hc
  have hj := hc.json
  have hnc := hc.noColor
  cases v with
  | nil => cases fuel <;> (simp only [encVal, hj, Bool.false_eq_true, ↓reduceIte]; exact bal_lit _)
  | str s => cases fuel <;> (simp only [encVal]; exact hq s)
  | bool b => cases fuel <;> (simp only [encVal]; exact bal_boolText b)
  | int i => cases fuel <;> (simp only [encVal]; exact bal_intDigits i)
  | uint n => cases fuel <;> (simp only [encVal, jsonQuoted, hj, Bool.false_eq_true, ↓reduceIte]; exact bal_natDigits n)
  | float t => cases fuel <;> (simp only [encVal, jsonQuoted, hj, Bool.false_eq_true, ↓reduceIte]; simp only [tokOK] at hok; exact bal_of_tokB hok)
  | complex re im =>
    cases fuel <;> (simp only [encVal, jsonQuoted, hj, Bool.false_eq_true, ↓reduceIte]; simp only [tokOK, Bool.and_eq_true] at hok
                    exact bal_complexText _ _ hok.1 hok.2)
  | dur t => cases fuel <;> (simp only [encVal]; exact hq t)
  | time t => cases fuel <;> (simp only [encVal, timeText, hnc, ↓reduceIte]; simp only [tokOK] at hok; exact bal_rawQuoted t hok)
  | tstamp t => cases fuel <;> (simp only [encVal, tstampText, hnc, ↓reduceIte]; simp only [tokOK] at hok; exact bal_rawQuoted t hok)
  | err m => cases fuel <;> (simp only [encVal, hc.fmt]; exact hq m)
  | bytes bs => cases fuel <;> (simp only [encVal]; exact hq bs)
  | strs xs => cases fuel <;> (simp only [encVal]; exact bal_bracket _ (by intro x hx; simp only [List.mem_map] at hx; obtain ⟨y, _, rfl⟩ := hx; exact hq y))
  | bools xs => cases fuel <;> (simp only [encVal]; exact bal_bracket _ (by intro x hx; simp only [List.mem_map] at hx; obtain ⟨y, _, rfl⟩ := hx; exact bal_boolText y))
  | ints xs => cases fuel <;> (simp only [encVal]; exact bal_bracket _ (by intro x hx; simp only [List.mem_map] at hx; obtain ⟨y, _, rfl⟩ := hx; exact bal_intDigits y))
  | uints xs => cases fuel <;> (simp only [encVal]; exact bal_bracket _ (by intro x hx; simp only [List.mem_map] at hx; obtain ⟨y, _, rfl⟩ := hx; exact bal_natDigits y))
  | floats xs =>
    cases fuel <;> (simp only [encVal]; simp only [tokOK] at hok
                    exact bal_bracket _ (by
                      intro x hx; simp only [List.mem_map] at hx; obtain ⟨y, hy, rfl⟩ := hx
                      simp only [jsonQuoted, hj, Bool.false_eq_true, ↓reduceIte]; exact bal_of_tokB (all_of_all hok y hy)))
  | complexes xs =>
    cases fuel <;> (simp only [encVal]; simp only [tokOK, List.all_eq_true, Bool.and_eq_true] at hok
                    exact bal_bracket _ (by
                      intro x hx; simp only [List.mem_map] at hx; obtain ⟨y, hy, rfl⟩ := hx
                      simp only [jsonQuoted, hj, Bool.false_eq_true, ↓reduceIte]
                      exact bal_complexText _ _ (hok y hy).1 (hok y hy).2))
  | durs xs => cases fuel <;> (simp only [encVal]; exact bal_bracket _ (by intro x hx; simp only [List.mem_map] at hx; obtain ⟨y, _, rfl⟩ := hx; exact hq y))
  | times xs =>
    cases fuel <;> (simp only [encVal]; simp only [tokOK] at hok
                    exact bal_bracket _ (by
                      intro x hx; simp only [List.mem_map] at hx; obtain ⟨y, hy, rfl⟩ := hx
                      simp only [timeText, hnc, ↓reduceIte]; exact bal_rawQuoted y (all_of_all hok y hy)))
  | fallback t => cases fuel <;> (simp only [encVal]; exact hq t)
  | textm t fb => cases fuel <;> (simp only [encVal]; split <;> exact hq _)
  | group items => simp [isGroupVal] at hng

/-! ### the induction over the encoder -/

theorem spaced_one (t : Bytes) (hb : Bal t) (hne : t ≠ []) : Spaced (32 :: t) [t] := by
  have := Spaced.tok hb hne Spaced.nil
  simpa using this

theorem tokOf_bal (k v : Bytes) (hk : KeyOK k) (hv : Bal v) : Bal (tokOf (k, v)) := by
  unfold tokOf
  have : k ++ 61 :: v = k ++ ([61] ++ v) := rfl
  rw [this]
  exact bal_append (bal_key hk) (bal_append (bal_lit ([61] : Bytes)) hv)

theorem tokOf_ne (p : Bytes × Bytes) : tokOf p ≠ [] := by simp [tokOf]

def AttrsStmtL (c : EncCfg) (fuel : Nat) : Prop :=
  ∀ (as : List Attr) (pfx : Bytes), (∀ a ∈ as, attrTokOK fuel a = true) → KeyOK pfx →
    Spaced (encAttrs c fuel pfx false as) ((flatAttrs c fuel pfx as).map tokOf)

/-- one attribute: its leading space, key part and value -/
def ValStmtL (c : EncCfg) (fuel : Nat) : Prop :=
  ∀ (v : Val) (dotted : Bytes) (g : Bool), tokOK fuel v = true → (g = true → isGroupVal v = true) → KeyOK dotted →
    Spaced ([32] ++ (if g then [] else dotted ++ [61]) ++ encVal c fuel dotted v) ((flatVal c fuel dotted g v).map tokOf)

theorem attrs_of_vals_L (c : EncCfg) (hc : LogfmtCfg c) (fuel : Nat) (hv : ValStmtL c fuel) : AttrsStmtL c fuel := by
  intro as
  induction as with
  | nil => intro pfx _ _; simp only [encAttrs, flatAttrs, List.map_nil]; exact Spaced.nil
  | cons a rest ih =>
    intro pfx hall hp
    have hrest : ∀ x ∈ rest, attrTokOK fuel x = true := fun x hx => hall x (by simp [hx])
    cases a with
    | none => simp only [encAttrs, flatAttrs]; exact ih pfx hrest hp
    | some kv =>
      obtain ⟨k, g, v⟩ := kv
      have ha := hall (some (k, g, v)) (by simp)
      simp only [attrTokOK, Bool.and_eq_true, Bool.or_eq_true, Bool.not_eq_true'] at ha
      have hdot := keyOK_dot k pfx (keyOK_of_B ha.1.1) hp
      have hg : g = true → isGroupVal v = true := by
        intro h; rcases ha.1.2 with h' | h'
        · rw [h] at h'; cases h'
        · exact h'
      have hval := hv v (dotPrefix k pfx) g ha.2 hg hdot
      have hrestS := ih pfx hrest hp
      simp only [encAttrs, flatAttrs, List.map_append, hc.json, hc.noColor, hc.comma, hc.colon, hc.key, Bool.false_eq_true, ↓reduceIte,
        Bool.not_false, Bool.and_true]
      have e : [32] ++ (if g = true then [] else dotPrefix k pfx ++ [61]) ++ encVal c fuel (dotPrefix k pfx) v ++ encAttrs c fuel pfx false rest
          = ([32] ++ (if g = true then [] else dotPrefix k pfx ++ [61]) ++ encVal c fuel (dotPrefix k pfx) v) ++ encAttrs c fuel pfx false rest := by
        simp only [List.append_assoc]
      rw [e]
      exact Spaced.append hval hrestS

theorem vals_scalar_L (c : EncCfg) (hc : LogfmtCfg c) (fuel : Nat) (v : Val) (dotted : Bytes) (g : Bool)
    (hok : tokOK fuel v = true) (hg : g = true → isGroupVal v = true) (hk : KeyOK dotted) (hng : isGroupVal v = false) :
    Spaced ([32] ++ (if g then [] else dotted ++ [61]) ++ encVal c fuel dotted v) ((flatVal c fuel dotted g v).map tokOf) := by
  have hgf : g = false := by
    cases g with
    | false => rfl
    | true => have := hg rfl; rw [hng] at this; cases this
  subst hgf
  have hb := scalar_bal c hc fuel dotted v hok hng
  have hflat : flatVal c fuel dotted false v = [(dotted, encVal c fuel dotted v)] := by
    cases v <;> first | (simp [isGroupVal] at hng; done) | (cases fuel <;> simp only [flatVal])
  rw [hflat]
  simp only [Bool.false_eq_true, ↓reduceIte, List.map_cons, List.map_nil, List.cons_append, List.append_assoc]
  have := spaced_one (tokOf (dotted, encVal c fuel dotted v)) (tokOf_bal _ _ hk hb) (tokOf_ne _)
  simpa [tokOf] using this

theorem keyTok_spaced (dotted : Bytes) (g : Bool) (hk : KeyOK dotted) :
    Spaced ([32] ++ (if g then [] else dotted ++ [61])) ((if g then [] else [(dotted, ([] : Bytes))]).map tokOf) := by
  cases g with
  | true => simp only [↓reduceIte, List.append_nil, List.map_nil]; exact Spaced.sp Spaced.nil
  | false =>
    simp only [Bool.false_eq_true, ↓reduceIte, List.map_cons, List.map_nil]
    have := spaced_one (tokOf (dotted, [])) (tokOf_bal _ _ hk bal_nil) (tokOf_ne _)
    simpa [tokOf] using this

theorem vals_zero_L (c : EncCfg) (hc : LogfmtCfg c) : ValStmtL c 0 := by
  intro v dotted g hok hg hk
  cases hgv : isGroupVal v with
  | false => exact vals_scalar_L c hc 0 v dotted g hok hg hk hgv
  | true =>
    cases v with
    | group items =>
      simp only [encVal, flatVal, List.append_nil]
      exact keyTok_spaced dotted g hk
    | _ => simp [isGroupVal] at hgv

theorem vals_succ_L (c : EncCfg) (hc : LogfmtCfg c) (fuel : Nat) (ha : AttrsStmtL c fuel) : ValStmtL c (fuel + 1) := by
  intro v dotted g hok hg hk
  cases hgv : isGroupVal v with
  | false => exact vals_scalar_L c hc (fuel + 1) v dotted g hok hg hk hgv
  | true =>
    cases v with
    | group items =>
      simp only [tokOK, List.all_eq_true] at hok
      have hall : ∀ a ∈ prepAttrs items, attrTokOK fuel a = true := by
        intro a ha'
        have := hok a (prepAttrs_subset items a ha')
        cases a with
        | none => rfl
        | some kv => obtain ⟨k, g', v'⟩ := kv; simpa [attrTokOK] using this
      have hmem := ha (prepAttrs items) dotted hall hk
      simp only [encVal, flatVal, hc.json, hc.noColor, Bool.false_eq_true, ↓reduceIte, List.append_nil, List.map_append]
      exact Spaced.append (keyTok_spaced dotted g hk) hmem
    | _ => simp [isGroupVal] at hgv

theorem vals_all_L (c : EncCfg) (hc : LogfmtCfg c) : ∀ fuel, ValStmtL c fuel
  | 0 => vals_zero_L c hc
  | fuel + 1 => vals_succ_L c hc fuel (attrs_of_vals_L c hc fuel (vals_all_L c hc fuel))

theorem attrs_all_L (c : EncCfg) (hc : LogfmtCfg c) (fuel : Nat) : AttrsStmtL c fuel :=
  attrs_of_vals_L c hc fuel (vals_all_L c hc fuel)

/-- the attributes of a record: a row of `key=value` tokens, groups flattened -/
theorem topAttrs_spaced (c : EncCfg) (hc : LogfmtCfg c) (depth : Nat) (attrs : List Attr)
    (hok : ∀ a ∈ attrs, attrTokOK depth a = true) :
    Spaced (encTopAttrs c depth attrs) ((flatAttrs c depth [] (prepAttrs attrs)).map tokOf) := by
  unfold encTopAttrs
  simp only [hc.noColor, ↓reduceIte, List.append_nil]
  exact attrs_all_L c hc depth _ [] (fun a ha => hok a (prepAttrs_subset attrs a ha)) keyOK_nil

/-! ### keys of the flattened pairs -/

def FlatKeysA (c : EncCfg) (fuel : Nat) : Prop :=
  ∀ (as : List Attr) (pfx : Bytes), (∀ a ∈ as, attrTokOK fuel a = true) → KeyOK pfx → ∀ p ∈ flatAttrs c fuel pfx as, KeyOK p.1

def FlatKeysV (c : EncCfg) (fuel : Nat) : Prop :=
  ∀ (v : Val) (dotted : Bytes) (g : Bool), tokOK fuel v = true → KeyOK dotted → ∀ p ∈ flatVal c fuel dotted g v, KeyOK p.1

theorem flatKeys_attrs (c : EncCfg) (fuel : Nat) (hv : FlatKeysV c fuel) : FlatKeysA c fuel := by
  intro as
  induction as with
  | nil => intro pfx _ _ p hp; simp [flatAttrs] at hp
  | cons a rest ih =>
    intro pfx hall hp p hmem
    have hrest : ∀ x ∈ rest, attrTokOK fuel x = true := fun x hx => hall x (by simp [hx])
    cases a with
    | none => simp only [flatAttrs] at hmem; exact ih pfx hrest hp p hmem
    | some kv =>
      obtain ⟨k, g, v⟩ := kv
      have ha := hall (some (k, g, v)) (by simp)
      simp only [attrTokOK, Bool.and_eq_true] at ha
      simp only [flatAttrs, List.mem_append] at hmem
      rcases hmem with h | h
      · exact hv v _ g ha.2 (keyOK_dot k pfx (keyOK_of_B ha.1.1) hp) p h
      · exact ih pfx hrest hp p h

theorem flatKeys_zero (c : EncCfg) : FlatKeysV c 0 := by
  intro v dotted g _ hk p hp
  cases v <;> (simp only [flatVal] at hp) <;>
    first
    | (rw [List.mem_singleton.mp hp]; exact hk)
    | (split at hp
       · simp at hp
       · rw [List.mem_singleton.mp hp]; exact hk)

theorem flatKeys_succ (c : EncCfg) (fuel : Nat) (ha : FlatKeysA c fuel) : FlatKeysV c (fuel + 1) := by
  intro v dotted g hok hk p hp
  cases v with
  | group items =>
    simp only [tokOK, List.all_eq_true] at hok
    have hall : ∀ a ∈ prepAttrs items, attrTokOK fuel a = true := by
      intro a ha'
      have := hok a (prepAttrs_subset items a ha')
      cases a with
      | none => rfl
      | some kv => obtain ⟨k, g', v'⟩ := kv; simpa [attrTokOK] using this
    simp only [flatVal, List.mem_append] at hp
    rcases hp with h | h
    · split at h
      · simp at h
      · rw [List.mem_singleton.mp h]; exact hk
    · exact ha _ dotted hall hk p h
  | _ => simp only [flatVal] at hp; rw [List.mem_singleton.mp hp]; exact hk

theorem flatKeys_all (c : EncCfg) : ∀ fuel, FlatKeysV c fuel
  | 0 => flatKeys_zero c
  | fuel + 1 => flatKeys_succ c fuel (flatKeys_attrs c fuel (flatKeys_all c fuel))

theorem flatAttrs_keys (c : EncCfg) (depth : Nat) (attrs : List Attr) (hok : ∀ a ∈ attrs, attrTokOK depth a = true) :
    ∀ p ∈ flatAttrs c depth [] (prepAttrs attrs), KeyOK p.1 :=
  flatKeys_attrs c depth (flatKeys_all c depth) _ [] (fun a ha => hok a (prepAttrs_subset attrs a ha)) keyOK_nil

theorem splitPair_tokOf (p : Bytes × Bytes) (hk : KeyOK p.1) : splitPair (tokOf p) = some p := by
  unfold tokOf
  rw [splitPair_kv _ _ (fun c hc => (hk c hc).2.2)]

/-! ### the head and the caller field -/

def kTime : Bytes := [116, 105, 109, 101]
def kLogger : Bytes := [108, 111, 103, 103, 101, 114]
def kLevel : Bytes := [108, 101, 118, 101, 108]
def kMsg : Bytes := [109, 115, 103]
def kCallerFile : Bytes := [99, 97, 108, 108, 101, 114, 46, 102, 105, 108, 101]
def kCallerLine : Bytes := [99, 97, 108, 108, 101, 114, 46, 108, 105, 110, 101]
def kCallerFunction : Bytes := [99, 97, 108, 108, 101, 114, 46, 102, 117, 110, 99, 116, 105, 111, 110]

/-- time, logger (if named), level, msg -/
def headPairs (c : EncCfg) (levelName : Bytes) (r : Record) : List (Bytes × Bytes) :=
  [(kTime, 34 :: (r.ts ++ [34]))] ++ (if r.name.isEmpty then [] else [(kLogger, c.quote r.name)]) ++
    [(kLevel, c.quote levelName), (kMsg, c.quote r.msg)]

def callerPairs (c : EncCfg) (r : Record) : List (Bytes × Bytes) :=
  match r.caller with
  | none => []
  | some (file, line, fn, _) => [(kCallerFile, c.quote file), (kCallerLine, intDigits line), (kCallerFunction, c.quote fn)]

/-- every field of the record as the reader should find it -/
def logfmtPairs (c : EncCfg) (levelName : Bytes) (depth : Nat) (r : Record) : List (Bytes × Bytes) :=
  headPairs c levelName r ++ flatAttrs c depth [] (prepAttrs r.attrs) ++ callerPairs c r

theorem keyOK_lit (k : Bytes) (h : keyB k = true := by decide) : KeyOK k := keyOK_of_B h

theorem plainHead_split (c : EncCfg) (hc : LogfmtCfg c) (levelName : Bytes) (r : Record) :
    ∃ x, plainHead c levelName r = tokOf (kTime, 34 :: (r.ts ++ [34])) ++ x ∧
      Spaced x (((headPairs c levelName r).drop 1).map tokOf) := by
  have hq := bal_quote hc
  have hlevel := spaced_one (tokOf (kLevel, c.quote levelName)) (tokOf_bal _ _ (keyOK_lit _) (hq _)) (tokOf_ne _)
  have hmsg := spaced_one (tokOf (kMsg, c.quote r.msg)) (tokOf_bal _ _ (keyOK_lit _) (hq _)) (tokOf_ne _)
  have hlogger := spaced_one (tokOf (kLogger, c.quote r.name)) (tokOf_bal _ _ (keyOK_lit _) (hq _)) (tokOf_ne _)
  by_cases hn : r.name.isEmpty = true
  · refine ⟨(32 :: tokOf (kLevel, c.quote levelName)) ++ (32 :: tokOf (kMsg, c.quote r.msg)), ?_, ?_⟩
    · simp only [plainHead, hc.json, hc.comma, hc.colon, hc.key, hn, Bool.false_eq_true, ↓reduceIte, tokOf, kTime, kLevel, kMsg,
        List.nil_append, List.append_assoc, List.cons_append, List.append_nil]
    · simp only [headPairs, hn, ↓reduceIte, List.append_nil, List.singleton_append, List.drop_succ_cons, List.drop_zero, List.map_cons, List.map_nil]
      exact Spaced.append hlevel hmsg
  · refine ⟨(32 :: tokOf (kLogger, c.quote r.name)) ++ ((32 :: tokOf (kLevel, c.quote levelName)) ++ (32 :: tokOf (kMsg, c.quote r.msg))), ?_, ?_⟩
    · simp only [plainHead, hc.json, hc.comma, hc.colon, hc.key, hn, Bool.false_eq_true, ↓reduceIte, tokOf, kTime, kLevel, kMsg, kLogger,
        List.nil_append, List.append_assoc, List.cons_append]
    · simp only [headPairs, hn, Bool.false_eq_true, ↓reduceIte, List.cons_append, List.nil_append, List.drop_succ_cons, List.drop_zero,
        List.map_cons, List.map_nil]
      exact Spaced.append hlogger (Spaced.append hlevel hmsg)

theorem plainCaller_spaced (c : EncCfg) (hc : LogfmtCfg c) (r : Record) :
    Spaced (plainCaller c r) ((callerPairs c r).map tokOf) := by
  have hq := bal_quote hc
  unfold plainCaller callerPairs
  cases r.caller with
  | none => exact Spaced.nil
  | some cl =>
    obtain ⟨file, line, fn, shown⟩ := cl
    have h1 := spaced_one (tokOf (kCallerFile, c.quote file)) (tokOf_bal _ _ (keyOK_lit _) (hq _)) (tokOf_ne _)
    have h2 := spaced_one (tokOf (kCallerLine, intDigits line)) (tokOf_bal _ _ (keyOK_lit _) (bal_intDigits _)) (tokOf_ne _)
    have h3 := spaced_one (tokOf (kCallerFunction, c.quote fn)) (tokOf_bal _ _ (keyOK_lit _) (hq _)) (tokOf_ne _)
    have := Spaced.append h1 (Spaced.append h2 h3)
    simp only [hc.json, hc.comma, Bool.false_eq_true, ↓reduceIte, List.map_cons, List.map_nil]
    simpa [tokOf, kCallerFile, kCallerLine, kCallerFunction] using this

/-- **the line splits back into its fields** -/
theorem plainBody_tokens (c : EncCfg) (hc : LogfmtCfg c) (levelName : Bytes) (depth : Nat) (r : Record)
    (hts : inqB r.ts = true) (hattrs : ∀ a ∈ r.attrs, attrTokOK depth a = true) :
    logfmtTokens (plainBody c levelName depth r) = (logfmtPairs c levelName depth r).map tokOf := by
  obtain ⟨x, hx, hxs⟩ := plainHead_split c hc levelName r
  have hrow := Spaced.append hxs (Spaced.append (topAttrs_spaced c hc depth r.attrs hattrs) (plainCaller_spaced c hc r))
  have hb : Bal (tokOf (kTime, 34 :: (r.ts ++ [34]))) := tokOf_bal _ _ (keyOK_lit _) (bal_quoted _ (inq_of_B hts))
  have := logfmtTokens_line _ _ _ hb (tokOf_ne _) hrow
  unfold plainBody
  rw [hx]
  simp only [hc.json, Bool.false_eq_true, ↓reduceIte, List.append_nil, List.append_assoc]
  rw [this]
  simp only [logfmtPairs, headPairs, List.map_append, List.map_cons, List.map_nil, List.cons_append,
    List.drop_succ_cons, List.drop_zero, List.append_assoc]

theorem logfmtPairs_keys (c : EncCfg) (levelName : Bytes) (depth : Nat) (r : Record)
    (hattrs : ∀ a ∈ r.attrs, attrTokOK depth a = true) : ∀ p ∈ logfmtPairs c levelName depth r, KeyOK p.1 := by
  intro p hp
  simp only [logfmtPairs, List.mem_append] at hp
  rcases hp with (h | h) | h
  · simp only [headPairs, List.mem_append, List.mem_cons, List.not_mem_nil, or_false] at h
    rcases h with (h | h) | h | h
    · rw [h]; exact keyOK_lit kTime
    · split at h
      · simp at h
      · rw [List.mem_singleton.mp h]; exact keyOK_lit kLogger
    · rw [h]; exact keyOK_lit kLevel
    · rw [h]; exact keyOK_lit kMsg
  · exact flatAttrs_keys c depth r.attrs hattrs p h
  · unfold callerPairs at h
    split at h
    · simp at h
    · simp only [List.mem_cons, List.not_mem_nil, or_false] at h
      rcases h with h | h | h
      · rw [h]; exact keyOK_lit kCallerFile
      · rw [h]; exact keyOK_lit kCallerLine
      · rw [h]; exact keyOK_lit kCallerFunction

end Logg
