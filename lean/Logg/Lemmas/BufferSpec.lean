/-
  Logg.Lemmas.BufferSpec — the method-by-method buffer model refines the queue specification.
-/
import Logg.Model.BufferSpec
import Logg.Props.C19

namespace Logg
open Logg.Props.C19

theorem abs_unread (s : Buf) : s.abs.unread = s.unread := rfl
theorem abs_lastRead (s : Buf) : s.abs.lastRead = s.lastRead := rfl

theorem abs_done_length (s : Buf) (h : Inv s) : s.abs.done.length = s.off := by
  unfold Props.C19.Inv at h; simp [Buf.abs, List.length_take]; omega

theorem len_eq (s : Buf) : s.len = s.unread.length := by simp [Buf.len, Buf.unread]

theorem empty_iff (s : Buf) : s.empty = s.unread.isEmpty := by
  simp only [Buf.empty, Buf.unread]
  by_cases h : s.data.length ≤ s.off
  · simp [h, List.drop_eq_nil_of_le h]
  · have : s.data.drop s.off ≠ [] := by
      intro e; have := List.drop_eq_nil_iff.mp e; omega
    simp [h, this]

/-- moving the read point forward -/
theorem abs_advance (s : Buf) (k : Nat) (lr : Int) :
    ({ s with off := s.off + k, lastRead := lr } : Buf).abs = s.abs.advance k lr := by
  simp only [Buf.abs, Zip.advance, Zip.mk.injEq, and_true]
  refine ⟨?_, by rw [List.drop_drop]⟩
  rw [List.take_add]

/-- moving it back -/
theorem abs_back (s : Buf) (k : Nat) (h : Inv s) (hk : k ≤ s.off) :
    ({ s with off := s.off - k, lastRead := 0 } : Buf).abs = s.abs.back k := by
  unfold Props.C19.Inv at h
  simp only [Buf.abs, Zip.back, Zip.mk.injEq, and_true, List.length_take]
  have hmin : min s.off s.data.length = s.off := by omega
  rw [hmin]
  constructor
  · rw [List.take_take]; congr 1; omega
  · have : s.data = s.data.take s.off ++ s.data.drop s.off := (List.take_append_drop _ _).symm
    conv => lhs; rw [this]
    rw [List.drop_append_of_le_length (by simp [List.length_take]; omega)]

theorem abs_reset (s : Buf) : s.reset.abs = Zip.empty := by simp [Buf.abs, Buf.reset, Zip.empty]

theorem fg_empty (f : Bool) : Zip.empty.fg f = Zip.empty := by cases f <;> rfl

theorem growCore_abs (s : Buf) (n : Nat) (caps : List Nat) (s' : Buf) (caps' : List Nat)
    (hg : s.growCore n caps = .ok (s', caps')) : ∃ f, s'.abs = s.abs.fg f := by
  unfold Buf.growCore at hg
  split at hg
  · cases hg; exact ⟨false, rfl⟩
  · split at hg
    · cases hg; exact ⟨false, rfl⟩
    · simp only [] at hg
      split at hg
      · cases hg; exact ⟨true, by simp [Buf.abs, Zip.fg, Buf.unread]⟩
      · split at hg
        · cases hg
        · split at hg <;> cases hg <;> exact ⟨true, by simp [Buf.abs, Zip.fg, Buf.unread]⟩

theorem normalize_abs (s : Buf) (h : Props.C19.Inv s) :
    s.normalize.abs = if s.abs.unread.isEmpty && !s.abs.done.isEmpty then Zip.empty else s.abs := by
  have hlen : s.len = s.abs.unread.length := len_eq s
  have hoff := abs_done_length s h
  unfold Buf.normalize
  by_cases hc : (s.len == 0 && s.off != 0) = true
  · rw [if_pos hc]
    simp only [Bool.and_eq_true, beq_iff_eq, bne_iff_ne, ne_eq] at hc
    have h1 : s.abs.unread.isEmpty = true := by rw [List.isEmpty_iff]; apply List.eq_nil_of_length_eq_zero; omega
    have h2 : s.abs.done.isEmpty = false := by
      cases hd : s.abs.done with
      | nil => rw [hd] at hoff; simp at hoff; omega
      | cons a t => rfl
    simp [h1, h2, abs_reset]
  · rw [if_neg hc]
    simp only [Bool.and_eq_true, beq_iff_eq, bne_iff_ne, ne_eq, not_and, Decidable.not_not] at hc
    by_cases h1 : s.abs.unread.isEmpty = true
    · have hl0 : s.len = 0 := by rw [hlen]; rw [List.isEmpty_iff] at h1; rw [h1]; rfl
      have ho := hc hl0
      have h2 : s.abs.done.isEmpty = true := by
        rw [List.isEmpty_iff]; apply List.eq_nil_of_length_eq_zero; omega
      simp [h1, h2]
    · simp [h1]

theorem growRoom_abs (s : Buf) (n : Nat) (caps : List Nat) (s' : Buf) (caps' : List Nat)
    (h : Props.C19.Inv s) (hg : s.growRoom n caps = .ok (s', caps')) : ∃ f, s'.abs = s.abs.room f := by
  unfold Buf.growRoom at hg
  obtain ⟨f, hf⟩ := growCore_abs _ n caps s' caps' hg
  refine ⟨f, ?_⟩
  rw [hf, normalize_abs s h]
  unfold Zip.room
  split
  · exact fg_empty f
  · rfl

/-- with no pending read kind, making room can only forget the consumed bytes -/
theorem room_fg (q : Zip) (hq : q.lastRead = 0) (f : Bool) : ∃ f', q.room f = q.fg f' := by
  unfold Zip.room
  split
  · rename_i hc
    simp only [Bool.and_eq_true, Bool.not_eq_true'] at hc
    refine ⟨true, ?_⟩
    have : q.unread = [] := List.isEmpty_iff.mp hc.1
    cases q with
    | mk d u l => simp only at this hq; subst this hq; rfl
  · exact ⟨f, rfl⟩

theorem abs_append_data (s : Buf) (p : Bytes) (h : Props.C19.Inv s) :
    ({ s with data := s.data ++ p } : Buf).abs = { s.abs with unread := s.abs.unread ++ p } := by
  unfold Props.C19.Inv at h
  simp only [Buf.abs, Zip.mk.injEq, and_true]
  exact ⟨List.take_append_of_le_length h, List.drop_append_of_le_length h⟩

theorem append_abs (s0 : Buf) (p : Bytes) (caps : List Nat) (s' : Buf) (c' : List Nat)
    (h : Props.C19.Inv s0) (h0 : s0.lastRead = 0) (ha : s0.append p caps = .ok (s', c')) :
    ∃ f, s'.abs = { (s0.abs.fg f) with unread := s0.abs.unread ++ p } := by
  unfold Buf.append at ha
  split at ha
  · simp only [pure, Except.pure, bind, Except.bind] at ha
    cases ha
    exact ⟨false, abs_append_data s0 p h⟩
  · cases hg : s0.growRoom p.length caps with
    | error e => simp [hg, bind, Except.bind] at ha
    | ok r =>
      obtain ⟨t1, c1⟩ := r
      simp only [hg, bind, Except.bind, pure, Except.pure] at ha
      cases ha
      have hinv := (growRoom_inv s0 p.length caps t1 _ h hg).1
      obtain ⟨f, hf⟩ := growRoom_abs s0 p.length caps t1 _ h hg
      obtain ⟨f', hf'⟩ := room_fg s0.abs h0 f
      refine ⟨f', ?_⟩
      rw [abs_append_data t1 p hinv, hf, hf']
      cases f' <;> rfl

end Logg
