/-
  Logg.Lemmas.Strip — removing SGR sequences, piece by piece: text without ESC stays, a sequence
  `ESC [ n m` (n ≥ 0) disappears, and pieces compose.
-/
import Logg.Model.Strip
import Logg.Model.Encoder
import Logg.Lemmas.SgrBase

namespace Logg
open Logg.Lemmas

/-- x, read from between sequences, leaves y and ends between sequences -/
def Strips (x y : Bytes) : Prop := ∀ rest, stripFrom [] (x ++ rest) = y ++ stripFrom [] rest

theorem strips_nil : Strips [] [] := fun _ => rfl

theorem strips_app {a a' b b' : Bytes} (ha : Strips a a') (hb : Strips b b') : Strips (a ++ b) (a' ++ b') := by
  intro rest
  rw [List.append_assoc, ha, hb, List.append_assoc]

theorem strips_plain (x : Bytes) (h : ∀ c ∈ x, c ≠ 27) : Strips x x := by
  induction x with
  | nil => exact strips_nil
  | cons c x ih =>
    intro rest
    have hc : (c == 27) = false := by simpa using h c (by simp)
    simp only [List.cons_append, stripFrom, hc, Bool.false_eq_true, ↓reduceIte]
    rw [ih (fun c' hc' => h c' (by simp [hc']))]

theorem strips_noC0 (x : Bytes) (h : NoC0 x) : Strips x x :=
  strips_plain x (fun c hc e => by have := h c hc; subst e; simp at this)

theorem stripFrom_params (a b : UInt8) (t ds rest : Bytes) (hd : ∀ c ∈ ds, isSgrParam c = true) :
    stripFrom (a :: b :: t) (ds ++ 109 :: rest) = stripFrom [] rest := by
  induction ds generalizing t with
  | nil => simp [stripFrom]
  | cons c ds ih =>
    have hc := hd c (by simp)
    have h109 : (c == 109) = false := by
      cases h : c == 109 with
      | false => rfl
      | true => have := eq_of_beq h; subst this; simp [isSgrParam] at hc
    simp only [List.cons_append, stripFrom, h109, hc, Bool.false_eq_true, ↓reduceIte]
    exact ih (t ++ [c]) (fun c' hc' => hd c' (by simp [hc']))

theorem digit_isParam (c : UInt8) (h : 48 ≤ c.toNat ∧ c.toNat ≤ 57) : isSgrParam c = true := by
  have h1 : (48 : UInt8) ≤ c := by rw [UInt8.le_iff_toNat_le]; simp; omega
  have h2 : c ≤ (57 : UInt8) := by rw [UInt8.le_iff_toNat_le]; simp; omega
  simp [isSgrParam, h1, h2]

/-- a whole sequence with a non-negative parameter disappears -/
theorem strips_esc (n : Int) (hn : 0 ≤ n) : Strips (esc n) [] := by
  intro rest
  have hd : intDigits n = natDigits n.toNat := by
    unfold intDigits; simp [show ¬ n < 0 by omega]
  have hparams : ∀ c ∈ natDigits n.toNat, isSgrParam c = true := fun c hc => digit_isParam c (decDigits_digit _ _ c hc)
  simp only [esc, hd, List.append_assoc, List.cons_append, List.nil_append, List.singleton_append]
  show stripFrom [] (27 :: 91 :: (natDigits n.toNat ++ 109 :: rest)) = [] ++ stripFrom [] rest
  simp only [stripFrom, beq_self_eq_true, ↓reduceIte, List.nil_append]
  exact stripFrom_params 27 91 [] _ rest hparams

theorem strips_echoColor (n : Int) (hn : -1 ≤ n) : Strips (echoColor n) [] := by
  unfold echoColor
  split
  · rename_i h; exact strips_esc n (by simp at h; omega)
  · exact strips_nil

theorem strips_reset : Strips escReset [] := by
  have := strips_esc 0 (by decide)
  simpa [esc, escReset, intDigits, natDigits, decDigits] using this

theorem stripSgr_of {x y : Bytes} (h : Strips x y) : stripSgr x = y := by
  have := h []
  simpa [stripSgr, stripFrom] using this

end Logg
