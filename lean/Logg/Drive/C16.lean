/- Line-protocol driver for C16: regenerated zone / layout selection and setters; texts of an
   instant in a zone and layout are atoms supplied by the harness (time.Format is not modelled). -/
import Logg.Model.Timestamp
import Logg.Gen.Decisions

namespace Logg.Drive.C16
open Logg

structure St where
  modeUTC : Int := 0
  layout : String := ""

def hexToString (s : String) : Option String := (ofHex s).bind fun bs => String.fromUTF8? ⟨bs.toArray⟩

/-- atom syntax: `u,<layout hex>,<text hex>` or `o,<layout hex>,<text hex>` -/
def findAtom (utc : Bool) (layout : String) (atoms : List String) : Option String :=
  atoms.findSome? fun a =>
    match a.splitOn "," with
    | [z, l, t] =>
      if (z == "u") == utc && hexToString l == some layout then some t else none
    | _ => none

def step (s : St) (toks : List String) : St × String :=
  match toks with
  | ["reset"] => ({}, "ok")
  | "utcmode" :: bits =>
    match bits.mapM parseBool with
    | some bs => ({ s with modeUTC := Gen.setUTCMode s.modeUTC bs }, "ok")
    | none => (s, "bad-op")
  | "timeformat" :: lays =>
    match lays.mapM hexToString with
    | some ls => ({ s with layout := Gen.setTimeFormat s.layout ls }, "ok")
    | none => (s, "bad-op")
  | "ts" :: flags :: fmt :: atoms =>
    match flags.toNat? with
    | some flags =>
      let g : Globals := { flags := flags }
      let utc := Gen.zoneIsUTC g s.modeUTC
      let lay := Gen.layoutSel g s.layout
      match findAtom utc lay atoms with
      | some t => (s, fmt ++ " " ++ t)
      | none => (s, "no-atom " ++ boolStr utc ++ " " ++ toHex lay.toUTF8.toList)
    | none => (s, "bad-op")
  | _ => (s, "bad-op")

end Logg.Drive.C16
