/- Line-protocol driver for C17 (level registry) and the `Q` quoting probes. -/
import Logg.Bridge.Registry
import Logg.Gen.Decisions
import Logg.Model.Logfmt
import Logg.Model.JsonRead
import Logg.Model.Strip
import Logg.Lemmas.SgrBase
import Logg.Model.Unquote
import Logg.Model.IsPrint

namespace Logg.Drive.C17
open Logg

def optHex (o : Option Bytes) : String := match o with | some t => "ok " ++ toHex t | none => "err"
def optInt (o : Option Int) : String := match o with | some l => "ok " ++ toString l | none => "err"

def step (r : Registry) (toks : List String) : Registry × String :=
  match toks with
  | ["reset"] => (Bridge.genRegistry, "ok")
  | ["reg", v, title, t0, t1, t2, t3, t4, t5, clr, bg, treat, toErr] =>
    match v.toInt?, ofHex title, [t0, t1, t2, t3, t4, t5].mapM ofHex, clr.toInt?, bg.toInt?, treat.toInt?, parseBool toErr with
    | some v, some title, some tags, some clr, some bg, some treat, some toErr =>
      match r.register v title { shortTags := tags, clr := clr, bg := bg, treatAs := treat, toErr := toErr } with
      | some r' => (r', "ok")
      | none => (r, "refused")
    | _, _, _, _, _, _, _ => (r, "bad-op")
  | ["name", l] => match l.toInt? with
    | some l => (r, toHex (r.name l))
    | none => (r, "bad-op")
  | ["parse", s] => match ofHex s with
    | some s => (r, optInt (r.parse s))
    | none => (r, "bad-op")
  | ["tag", l, n] => match l.toInt?, n.toInt? with
    | some l, some n => (r, match r.shortTag l n with | some t => toHex t | none => "panic")
    | _, _ => (r, "bad-op")
  | ["mtext", l] => match l.toInt? with
    | some l => (r, optHex (r.marshalText l))
    | none => (r, "bad-op")
  | ["utext", s] => match ofHex s with
    | some s => (r, optInt (r.unmarshalText s))
    | none => (r, "bad-op")
  | ["mjson", l] => match l.toInt? with
    | some l => (r, optHex (r.marshalJSON (goQuote isPrintTable) l))
    | none => (r, "bad-op")
  | ["ujson", s] => match ofHex s with
    | some s => (r, optInt (r.unmarshalJSON goUnquote s))
    | none => (r, "bad-op")
  | ["treat", l] => match l.toInt? with
    | some l => (r, match r.treatAs.lookup l with | some t => toString t | none => "none")
    | none => (r, "bad-op")
  | ["gate", lg, l] => match lg.toInt?, l.toInt? with
    | some lg, some l => (r, boolStr (Gen.enabled { treatAs := r.treatAs } lg l))
    | _, _ => (r, "bad-op")
  | ["errdev", l] => match l.toInt? with
    | some l => (r, boolStr (r.errorDevice.lookup l).isSome)
    | none => (r, "bad-op")
  | ["setcolors", l, fg, bg] => match l.toInt?, fg.toInt?, bg.toInt? with
    | some l, some fg, some bg => (r.setColors l fg bg, "ok")
    | _, _, _ => (r, "bad-op")
  | ["colors", l] => match l.toInt? with
    | some l => (r, boolStr (r.colors.lookup l).isSome)
    | none => (r, "bad-op")
  | ["all"] => (r, " ".intercalate (r.allLevels.map toString))
  | _ => (r, "bad-op")

/-- `Q go <hex>` / `Q json <hex>` / `Q unq <hex>`: the quoting functions themselves. -/
def stepQ (toks : List String) : String :=
  match toks with
  | ["go", s] => match ofHex s with | some s => toHex (goQuote isPrintTable s) | none => "bad-op"
  | ["json", s] => match ofHex s with | some s => toHex (jsonQuote s) | none => "bad-op"
  | ["unq", s] => match ofHex s with | some s => optHex (goUnquote s) | none => "bad-op"
  | ["sgr", s] => match ofHex s with
    | some s => let st := sgrScan Sgr.init s
                if st.mode == 0 && !st.nz && !st.bad && !st.colored then "clean" else "dirty"
    | none => "bad-op"
  | ["tok", s] => match ofHex s with
    | some s =>
      match (logfmtTokens s).mapM splitPair with
      | some ps => "ok " ++ " ".intercalate (ps.map fun p => toHex p.1 ++ ":" ++ toHex p.2)
      | none => "err"
    | none => "bad-op"
  | ["jmem", s] => match ofHex s with
    | some s =>
      match jsonMembers s with
      | some ps =>
        match ps.mapM (fun p => (jsonUnquote p.1).map fun k => (k, p.2)) with
        | some qs => "ok " ++ " ".intercalate (qs.map fun p => toHex p.1 ++ ":" ++ toHex p.2)
        | none => "err"
      | none => "err"
    | none => "bad-op"
  | ["strip", s] => match ofHex s with | some s => toHex (stripSgr s) | none => "bad-op"
  | ["junq", s] => match ofHex s with | some s => optHex (jsonUnquote s) | none => "bad-op"
  | _ => "bad-op"

end Logg.Drive.C17
