/- Line-protocol driver for C20 (duration formatter and parser). The parser's single float64
   expression is evaluated with Lean's `Float` (IEEE-754 binary64, as Go's float64). -/
import Logg.Model.Duration
import Logg.Gen.Tables

namespace Logg.Drive.C20
open Logg

/-- `uint64(float64(f) * (float64(unit) / scale))`, scale = 10^k accumulated by `scale *= 10`. -/
def fmulFloat (f unit k : Nat) : Nat :=
  let scale : Float := (List.range k).foldl (fun s _ => s * 10.0) 1.0
  (Float.ofNat f * (Float.ofNat unit / scale)).toUInt64.toNat

def stdUnits : List (Bytes × Nat) := stdUnitsOf Gen.unitMap

def showParse (r : Except DurErr Int) : String :=
  match r with
  | .ok d => "ok " ++ toString d
  | .error .invalid => "err invalid"
  | .error .missingUnit => "err missing-unit"
  | .error (.unknownUnit u) => "err unknown-unit " ++ toHex u

def step (toks : List String) : String :=
  match toks with
  | ["fmt", d, frac] =>
    match d.toInt?, parseBool frac with
    | some d, some frac => match shortDur Gen.durBufLen d frac with
      | some t => toHex t
      | none => "panic"
    | _, _ => "bad-op"
  | ["parse", s] => match ofHex s with
    | some s => showParse (parseDuration Gen.unitMap fmulFloat s)
    | none => "bad-op"
  | ["std", s] => match ofHex s with
    | some s => showParse (parseDuration stdUnits fmulFloat s)
    | none => "bad-op"
  | ["fm", f, unit, k] =>
    match f.toNat?, unit.toNat?, k.toNat? with
    | some f, some unit, some k => toString (fmulExact f unit k) ++ " " ++ toString (fmulFloat f unit k)
    | _, _, _ => "bad-op"
  | _ => "bad-op"

end Logg.Drive.C20
