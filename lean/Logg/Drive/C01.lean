/-
  Line-protocol driver for C01: runs the regenerated gate (`Gen.enabled`) and the regenerated
  entry-point table over the same operation stream as the implementation.
-/
import Logg.Model.Level
import Logg.Gen.Decisions
import Logg.Gen.EntryPoints

namespace Logg.Drive.C01
open Logg

def sortedNames (r : EpRecv) : String :=
  let ns := (Gen.entryPoints.filter (·.recv == r)).map (·.name)
  "[" ++ " ".intercalate (ns.toArray.qsort (· < ·)).toList ++ "]"

def step (s : GateState) (toks : List String) : GateState × String :=
  match toks with
  | ["reset", d, l0, l1, l2] =>
    match parseBool d, l0.toInt?, l1.toInt?, l2.toInt? with
    | some d, some a, some b, some c =>
      ({ g := { debugMode := d, treatAs := Gen.mLevelIsEnabledAs }, levels := [a, b, c] }, "ok")
    | _, _, _, _ => (s, "bad-op")
  | ["reg", v, t] =>
    match v.toInt?, (if t == "none" then some none else t.toInt?.map some) with
    | some v, some t => (gateStep s (.register v t), "ok")
    | _, _ => (s, "bad-op")
  | ["setlevel", k, l] =>
    match k.toNat?, l.toInt? with
    | some k, some l => (gateStep s (.setLevel k l), "ok")
    | _, _ => (s, "bad-op")
  | ["setdebug", d] =>
    match parseBool d with
    | some d => (gateStep s (.setDebug d), "ok")
    | none => (s, "bad-op")
  | ["eps"] => (s, "l:" ++ sortedNames .logger ++ " p:" ++ sortedNames .pkg)
  | ["enabled", k, r] =>
    match k.toNat?, r.toInt? with
    | some k, some r =>
      match s.levels[k]? with
      | some L => (s, boolStr (Gen.enabled s.g L r))
      | none => (s, "bad-op")
    | _, _ => (s, "bad-op")
  | ["call", recv, name, k, arg, variant] =>
    match k.toNat?, arg.toInt?, variant.toNat? with
    | some k, some arg, some variant =>
      let rv := if recv == "p" then EpRecv.pkg else EpRecv.logger
      match Gen.entryPoints.find? (fun e => e.name == name && e.recv == rv), s.levels[k]? with
      | some ep, some L =>
        match ep.sites[variant]? with
        | none => if ep.sites.isEmpty then (s, "0") else (s, "bad-op")
        | some site =>
          let gate := sevValue Gen.logsloglevel2Level arg site.gateSev
          let emit := sevValue Gen.logsloglevel2Level arg site.emitSev
          if !site.gated || Gen.enabled s.g L gate then (s, "1 " ++ toString emit) else (s, "0")
      | _, _ => (s, "bad-op")
    | _, _, _ => (s, "bad-op")
  | _ => (s, "bad-op")

end Logg.Drive.C01
