/- Line-protocol driver for C10 (logger hierarchy). -/
import Logg.Model.Tree
import Logg.Drive.C03
import Logg.Drive.C11

namespace Logg.Drive.C10
open Logg

def parseSetting (toks : List String) : Option Setting :=
  match toks with
  | ["level", l] => l.toInt?.map .level
  | ["json", bs] => (Drive.C11.parseBits (bs.drop 1).toString).map .json
  | ["color", bs] => (Drive.C11.parseBits (bs.drop 1).toString).map .color
  | ["utc", bs] => (Drive.C11.parseBits (bs.drop 1).toString).map .utc
  | "tf" :: ls => (ls.mapM fun l => (ofHex l).bind fun bs => String.fromUTF8? ⟨bs.toArray⟩).map .timeFormat
  | "attrs" :: ids => (ids.mapM String.toNat?).map .attrs
  | ["skip", n] => n.toInt?.map .skip
  | "ctx" :: ks => (ks.mapM String.toNat?).map .ctxKeys
  | ["resetctx"] => some .resetCtxKeys
  | "w" :: rest => (Drive.C03.parseOp rest).map .writer
  | _ => none

def splitOnSemi : List String → List (List String)
  | [] => [[]]
  | t :: ts =>
    let r := splitOnSemi ts
    if t == ";" then [] :: r
    else match r with
      | g :: gs => (t :: g) :: gs
      | [] => [[t]]

/-- settings separated by `;` tokens -/
def splitSettings (toks : List String) : Option (List Setting) :=
  ((splitOnSemi toks).filter (fun g => !g.isEmpty)).mapM parseSetting

def showNode (t : Tree) (i : Nat) : String :=
  match t[i]? with
  | none => "none"
  | some n =>
    let par := match n.parent with | some p => toString p | none => "-"
    let attrs := (n.attrs.eraseDups.toArray.qsort (· < ·)).toList  -- a record prints each key once
    let dest := routeSpec { errorDevice := Gen.mLevelUseErrorDevice } n.cfg 8
    " ".intercalate [toHex n.name, par, toString n.level, boolStr n.bits.1, boolStr n.bits.2, toString n.skip,
      "a=" ++ ",".intercalate (attrs.map toString), "c=?",
      "d=" ++ ",".intercalate (dest.map toString)]

def step (t : Tree) (toks : List String) : Tree × String :=
  match toks with
  | ["reset"] => ([], "ok")
  | "set" :: i :: rest =>
    match i.toNat?, parseSetting rest with
    | some i, some s => let r := treeStep t (.set i s); (r.1, match r.2 with | some k => toString k | none => "none")
    | _, _ => (t, "bad-op")
  | "child" :: p :: key :: name :: rest =>
    match p.toNat?, ofHex key, ofHex name, splitSettings rest with
    | some p, some key, some name, some opts =>
      let r := treeStep t (.newChild p key name opts); (r.1, match r.2 with | some k => toString k | none => "none")
    | _, _, _, _ => (t, "bad-op")
  | ["withskip", p, key, n] =>
    match p.toNat?, ofHex key, n.toInt? with
    | some p, some key, some n =>
      let r := treeStep t (.withSkip p key n); (r.1, match r.2 with | some k => toString k | none => "none")
    | _, _, _ => (t, "bad-op")
  | "newroot" :: name :: lvl :: rest =>
    match ofHex name, lvl.toInt?, splitSettings rest with
    | some name, some lvl, some opts =>
      let r := treeStep t (.newRoot name lvl opts); (r.1, match r.2 with | some k => toString k | none => "none")
    | _, _, _ => (t, "bad-op")
  | ["node", i] => match i.toNat? with
    | some i => (t, showNode t i)
    | none => (t, "bad-op")
  | ["root", i] => match i.toNat? with
    | some i => (t, toString (rootOf t t.length i))
    | none => (t, "bad-op")
  | ["each", i] => match i.toNat? with
    | some i =>
      let vs := (eachOf t t.length i 0).toArray.qsort (fun a c => a.1 < c.1 || (a.1 == c.1 && a.2 < c.2))
      (t, " ".intercalate (vs.toList.map fun v => toString v.1 ++ ":" ++ toString v.2))
    | none => (t, "bad-op")
  | ["sub", i, nm] => match i.toNat?, ofHex nm with
    | some i, some nm => (t, match subloggerOf t t.length i nm with | some _ => "found" | none => "none")
    | _, _ => (t, "bad-op")
  | _ => (t, "bad-op")

end Logg.Drive.C10
