/- Line-protocol driver for C03 (writer configuration and routing) and C13 (failing writers). -/
import Logg.Model.Pipeline
import Logg.Gen.Tables

namespace Logg.Drive.C03
open Logg

structure St where
  g : Globals := {}
  level : Int := 8
  cfg : WriterCfg := none
  settable : List Wid := []

def parseOp (toks : List String) : Option WriterOp :=
  match toks with
  | ["setWriter", w] => w.toNat?.map .setWriter
  | ["addWriter", w] => w.toNat?.map .addWriter
  | ["removeWriter", w] => w.toNat?.map .removeWriter
  | ["setErrorWriter", w] => w.toNat?.map .setErrorWriter
  | ["addErrorWriter", w] => w.toNat?.map .addErrorWriter
  | ["removeErrorWriter", w] => w.toNat?.map .removeErrorWriter
  | ["addLevelWriter", l, w] => do let l ← l.toInt?; let w ← w.toNat?; pure (.addLevelWriter l w)
  | ["removeLevelWriter", l, w] => do let l ← l.toInt?; let w ← w.toNat?; pure (.removeLevelWriter l w)
  | ["resetLevelWriter", l] => l.toInt?.map .resetLevelWriter
  | ["resetLevelWriters"] => some .resetLevelWriters
  | ["resetWriters"] => some .resetWriters
  | _ => none

def showEvent : WEvent → String
  | .tell w s => "t" ++ toString w ++ "=" ++ toString s
  | .write w ok => "w" ++ toString w ++ "=" ++ boolStr ok

def showRecords (rs : List (List WEvent)) : String :=
  if rs.isEmpty then "-" else "|".intercalate (rs.map fun r => ",".intercalate (r.map showEvent))

def failsOf (bits : String) : Nat → Bool := fun n => bits.toList.getD n '0' == '1'

def step (s : St) (toks : List String) : St × String :=
  match toks with
  | ["reset", lvl] =>
    match lvl.toInt? with
    | some l => ({ g := { errorDevice := Gen.mLevelUseErrorDevice, treatAs := Gen.mLevelIsEnabledAs }, level := l }, "ok")
    | none => (s, "bad-op")
  | ["regerr", v] =>
    match v.toInt? with
    | some v => ({ s with g := { s.g with errorDevice := assocSet s.g.errorDevice v true } }, "ok")
    | none => (s, "bad-op")
  | ["level", l] =>
    match l.toInt? with
    | some l => ({ s with level := l }, "ok")
    | none => (s, "bad-op")
  | "settable" :: ws =>
    match ws.mapM String.toNat? with
    | some ws => ({ s with settable := ws }, "ok")
    | none => (s, "bad-op")
  | "op" :: rest =>
    match parseOp rest with
    | some op => ({ s with cfg := cfgStep s.cfg op }, "ok")
    | none => (s, "bad-op")
  | ["probe", sev] =>
    match sev.toInt? with
    | some sev =>
      let c : CallCtx := { g := s.g, level := s.level, cfg := s.cfg, settable := fun w => s.settable.contains w, fails := fun _ => false }
      match (logCall c 0 sev).1 with
      | [ev] =>
        let tells := ev.filterMap fun e => match e with | .tell _ _ => some (showEvent e) | _ => none
        let ws := (ev.filterMap fun e => match e with | .write w _ => some w | _ => none).toArray.qsort (· < ·)
        let parts := tells ++ ws.toList.map fun w => "w" ++ toString w ++ "=1"
        (s, if parts.isEmpty then "-" else ",".intercalate parts)
      | [] => (s, "-")
      | _ => (s, "unexpected-second-record")
    | none => (s, "bad-op")
  | ["call", sev, bits] =>
    match sev.toInt? with
    | some sev =>
      let c : CallCtx := { g := s.g, level := s.level, cfg := s.cfg, settable := fun w => s.settable.contains w, fails := failsOf bits }
      (s, showRecords (logCall c 0 sev).1)
    | none => (s, "bad-op")
  | "calls" :: bits :: sevs =>
    -- a history of calls under ONE failure schedule running across all of them (Model/Pipeline.runCalls)
    match sevs.mapM String.toInt? with
    | some sevs =>
      let c : CallCtx := { g := s.g, level := s.level, cfg := s.cfg, settable := fun w => s.settable.contains w, fails := failsOf bits }
      (s, ";".intercalate ((runCalls c 0 sevs).1.map showRecords))
    | none => (s, "bad-op")
  | _ => (s, "bad-op")

end Logg.Drive.C03
