/- Line-protocol driver for C14: the frame a record is attributed to. -/
import Logg.Model.Caller

namespace Logg.Drive.C14
open Logg

def showFrame : Option Frame → String
  | some (.user n) => "user[" ++ toString n ++ "]"
  | some (.lib n) => "lib[" ++ toString n ++ "]"
  | some (.foreign n) => "foreign[" ++ toString n ++ "]"
  | some .getpc => "getpc"
  | some .callers => "runtime.Callers"
  | none => "beyond-the-stack"

def step (toks : List String) : String :=
  match toks with
  | ["v", recv, name, site, extra, depth] =>
    let r? := if recv == "l" then some EpRecv.logger else if recv == "p" then some EpRecv.pkg else none
    match r?, site.toNat?, extra.toNat?, depth.toNat? with
    | some r, some site, some extra, some depth =>
      match Gen.entryPoints.find? (fun ep => ep.name == name && ep.recv == r) with
      | none => "unknown-entry-point"
      | some ep =>
        if ep.sites.isEmpty then "no-record"
        else match ep.sites[site]? with
          | some s => showFrame (siteFrame s extra depth)
          | none => "no-such-site"
    | _, _, _, _ => "bad-op"
  | ["h", extra, depth] =>
    match extra.toNat?, depth.toNat? with
    | some e, some d => showFrame (handlerFrame e d)
    | _, _ => "bad-op"
  | ["b", extra, depth] =>
    match extra.toNat?, depth.toNat? with
    | some e, some d => showFrame (bridgeFrame e d)
    | _, _ => "bad-op"
  | _ => "bad-op"

end Logg.Drive.C14
