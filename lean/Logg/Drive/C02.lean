/- Line-protocol driver for C02: a whole verb call (gate, argument list, encoder, routing). -/
import Logg.Model.Args
import Logg.Drive.Enc
import Logg.Gen.Tables

namespace Logg.Drive.C02
open Logg Logg.Drive.Enc

/-- args := ( "s:<hex>" | "v" scalar | "a" "(" attrs ")" | "l" "(" attrs ")" | "g:<keyhex>" "{" args "}" )* -/
def parseArgs : (fuel : Nat) → List String → Option (List Arg × List String)
  | 0, _ => none
  | _ + 1, [] => some ([], [])
  | _ + 1, "}" :: rest => some ([], "}" :: rest)
  | fuel + 1, "v" :: sc :: rest => do
      let v ← parseScalar sc
      let (as, r) ← parseArgs fuel rest
      pure (.val v :: as, r)
  | fuel + 1, "a" :: "(" :: rest => do
      let (xs, r1) ← parseAttrs (rest.length + 2) rest
      match xs, r1 with
      | [x], ")" :: r2 => do
        let (as, r) ← parseArgs fuel r2
        pure (.attr x :: as, r)
      | _, _ => none
  | fuel + 1, "l" :: "(" :: rest => do
      let (xs, r1) ← parseAttrs (rest.length + 2) rest
      match r1 with
      | ")" :: r2 => do
        let (as, r) ← parseArgs fuel r2
        pure (.attrs xs :: as, r)
      | _ => none
  | fuel + 1, t :: rest =>
    match t.splitOn ":" with
    | ["s", h] => do
      let s ← ofHex h
      let (as, r) ← parseArgs fuel rest
      pure (.str s :: as, r)
    | ["g", kh] => do
      let key ← ofHex kh
      match rest with
      | "{" :: r1 => do
        let (inner, r2) ← parseArgs fuel r1
        match r2 with
        | "}" :: r3 => do
          let g ← groupEasy key inner
          let (as, r) ← parseArgs fuel r3
          pure (.attr g :: as, r)
        | _ => none
      | _ => none
    | _ => none

def parseIds (s : String) : Option (List Wid) :=
  if s == "-" then some [] else (s.splitOn ",").mapM String.toNat?

def parseLeveled (l : String) : Option (List (Int × List Wid)) :=
  if l == "-" then some []
  else (l.splitOn ";").mapM fun p =>
    match p.splitOn "=" with
    | [k, ids] => do let k ← k.toInt?; let ids ← parseIds ids; pure (k, ids)
    | _ => none

/-- "<normal>/<error>/<lvl>=<ids>;…" ("-" = none) -/
def parseWriters (s : String) : Option DualWriter :=
  match s.splitOn "/" with
  | [n, e, l] => do
    let n ← parseIds n
    let e ← parseIds e
    let lv ← parseLeveled l
    pure { normal := n, error := e, leveled := lv }
  | _ => none

def splitAt (sep : String) (toks : List String) : List String × List String :=
  (toks.takeWhile (· ≠ sep), (toks.dropWhile (· ≠ sep)).drop 1)

/-- `<fmt> <loggerLevel> <sev> <debugMode 0|1> <ts> <name> <msg> <tagw> <minw> <writers> <println 0|1> <sprinthex> LA attrs… AR args…` -/
def step (reg : Registry) (toks : List String) : String :=
  match toks with
  | f :: lvl :: sev :: dbg :: ts :: name :: msg :: tagw :: minw :: ws :: pl :: sp :: rest =>
    let fmt? := if f == "j" then some Fmt.json else if f == "l" then some Fmt.logfmt else if f == "c" then some Fmt.color else none
    let (laToks, arToks) := splitAt "AR" (rest.drop 1)
    match fmt?, lvl.toInt?, sev.toInt?, ofHex ts, ofHex name, ofHex msg, tagw.toInt?, minw.toNat?, parseWriters ws, ofHex sp,
          parseAttrs (laToks.length + 2) laToks, parseArgs (arToks.length + 2) arToks with
    | some fmt, some lvl, some sev, some ts, some name, some msg, some tagw, some minw, some d, some sp, some (la, []), some (args, []) =>
      let c : CallCtx := { g := { errorDevice := Gen.mLevelUseErrorDevice, treatAs := Gen.mLevelIsEnabledAs, debugMode := dbg == "1" }, level := lvl,
                           cfg := some d, settable := fun _ => false, fails := fun _ => false }
      let k : CallShape := { fmt := fmt, present := presentation reg tagw minw, name := name, loggerAttrs := la, ts := ts }
      let (msg, args) := if pl == "1" then printlnSplit args sp else (msg, args)
      match callWrites c k sev msg args with
      | none => "out-of-domain"
      | some [] => "-"
      | some ((w, p) :: more) =>
        if more.all (fun e => e.2 == p) then ",".intercalate ((w :: more.map Prod.fst).map toString) ++ " " ++ toHex p
        else "payloads-differ"
    | _, _, _, _, _, _, _, _, _, _, _, _ => "bad-op"
  | _ => "bad-op"

end Logg.Drive.C02
