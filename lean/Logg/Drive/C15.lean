/- Line-protocol driver for C15: the log/slog handler and the std log bridge. -/
import Logg.Model.Adapter
import Logg.Drive.C02

namespace Logg.Drive.C15
open Logg Logg.Drive.Enc Logg.Drive.C02

mutual
/-- value := b:<0|1> | t:<hex> | d:<hex> | f:<hex> | i:<int> | s:<hex> | u:<nat> | "(" attrs ")" | "V" value | "A" scalar -/
def parseSVal : (fuel : Nat) → List String → Option (SVal × List String)
  | 0, _ => none
  | _ + 1, [] => none
  | fuel + 1, "(" :: rest => do
      let (items, r) ← parseSAttrs fuel rest
      match r with
      | ")" :: r2 => pure (.group items, r2)
      | _ => none
  | fuel + 1, "V" :: rest => do
      let (v, r) ← parseSVal fuel rest
      pure (.valuer v, r)
  | _ + 1, "A" :: sc :: rest => do
      let v ← parseScalar sc
      pure (.any v, rest)
  | _ + 1, t :: rest =>
    match t.splitOn ":" with
    | ["b", b] => (parseBool b).map fun b => (.bool b, rest)
    | ["t", h] => (ofHex h).map fun x => (.time x, rest)
    | ["d", h] => (ofHex h).map fun x => (.dur x, rest)
    | ["f", h] => (ofHex h).map fun x => (.float x, rest)
    | ["i", i] => i.toInt?.map fun x => (.int x, rest)
    | ["s", h] => (ofHex h).map fun x => (.str x, rest)
    | ["u", n] => n.toNat?.map fun x => (.uint x, rest)
    | _ => none
/-- attrs := ( "K:<keyhex>" value )* until ")" or end -/
def parseSAttrs : (fuel : Nat) → List String → Option (SAttrs × List String)
  | 0, _ => none
  | _ + 1, [] => some (.nil, [])
  | _ + 1, ")" :: rest => some (.nil, ")" :: rest)
  | fuel + 1, k :: rest =>
    match k.splitOn ":" with
    | ["K", kh] => do
      let key ← ofHex kh
      let (v, r1) ← parseSVal fuel rest
      let (more, r2) ← parseSAttrs fuel r1
      pure (.cons key v more, r2)
    | _ => none
end

def showWrites : Option (List (Wid × Bytes)) → String
  | none => "out-of-domain"
  | some [] => "-"
  | some ((w, p) :: more) =>
    if more.all (fun e => e.2 == p) then ",".intercalate ((w :: more.map Prod.fst).map toString) ++ " " ++ toHex p
    else "payloads-differ"

def globals (dbg : String) : Globals :=
  { errorDevice := Gen.mLevelUseErrorDevice, treatAs := Gen.mLevelIsEnabledAs, debugMode := dbg == "1" }

def parseFmt (f : String) : Option Fmt :=
  if f == "j" then some Fmt.json else if f == "l" then some Fmt.logfmt else if f == "c" then some Fmt.color else none

def step (reg : Registry) (toks : List String) : String :=
  match toks with
  | ["L", l] => match l.toInt? with
    | some l => toString (Gen.logsloglevel2Level l)
    | none => "bad-op"
  | ["E", lvl, dbg, sl] =>
    match lvl.toInt?, sl.toInt? with
    | some lvl, some sl => boolStr (Gen.handlerEnabled (globals dbg) lvl sl)
    | _, _ => "bad-op"
  | "H" :: nc :: js :: ol :: lvl0 :: dbg :: sl :: ts :: name :: msg :: tagw :: minw :: ws :: via :: "SA" :: rest =>
    match parseBool nc, parseBool js, ol.toInt?, lvl0.toInt?, sl.toInt?, ofHex ts, ofHex name, ofHex msg, tagw.toInt?, minw.toNat?,
          parseWriters ws, parseSAttrs (rest.length + 2) rest with
    | some nc, some js, some ol, some lvl0, some sl, some ts, some name, some msg, some tagw, some minw, some d, some (attrs, []) =>
      let o : HandlerOpts := { noColor := nc, json := js, level := ol }
      let c : CallCtx := { g := globals dbg, level := handlerLevel o lvl0, cfg := some d, settable := fun _ => false, fails := fun _ => false }
      let k : CallShape := { fmt := handlerFmt o false true, present := presentation reg tagw minw, name := name, loggerAttrs := [], ts := ts }
      showWrites (if via == "1" then slogLoggerCall c k sl msg attrs else handleWrites c k sl msg attrs)
    | _, _, _, _, _, _, _, _, _, _, _, _ => "bad-op"
  | [op, f, lvl, dbg, bl, ts, name, buf, tagw, minw, ws] =>
    match parseFmt f, lvl.toInt?, bl.toInt?, ofHex ts, ofHex name, ofHex buf, tagw.toInt?, minw.toNat?, parseWriters ws with
    | some fmt, some lvl, some bl, some ts, some name, some buf, some tagw, some minw, some d =>
      let c : CallCtx := { g := globals dbg, level := lvl, cfg := some d, settable := fun _ => false, fails := fun _ => false }
      let k : CallShape := { fmt := fmt, present := presentation reg tagw minw, name := name, loggerAttrs := [], ts := ts }
      let (n, ws) := bridgeWrite c k bl buf
      if op == "B" then "n=" ++ toString n ++ " " ++ showWrites ws
      else if op == "BP" then showWrites ws else "bad-op"
    | _, _, _, _, _, _, _, _, _ => "bad-op"
  | _ => "bad-op"

end Logg.Drive.C15
