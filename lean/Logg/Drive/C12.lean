/- Line-protocol driver for C12: gate + termination tail, both regenerated. Stateless. -/
import Logg.Model.Terminate
import Logg.Gen.Decisions
import Logg.Gen.EntryPoints
import Logg.Gen.Facts

namespace Logg.Drive.C12
open Logg

def step (treat : List (Int × Int)) (toks : List String) : List (Int × Int) × String :=
  match toks with
  | ["reset"] => (Gen.mLevelIsEnabledAs, "ok")
  | ["reg", v, t] =>
    match v.toInt?, t.toInt? with
    | some v, some t => (regTreat treat v (some t), "ok")
    | _, _ => (treat, "bad-op")
  | _ => (treat, stepCall treat toks)
where stepCall (treat : List (Int × Int)) (toks : List String) : String :=
  match toks with
  | ["call", t, flags, L, recv, name, arg, variant] =>
    match parseBool t, flags.toNat?, L.toInt?, arg.toInt?, variant.toNat? with
    | some t, some flags, some L, some arg, some variant =>
      let g : Globals := { inTesting := t, flags := flags, treatAs := treat }
      let rv := if recv == "p" then EpRecv.pkg else EpRecv.logger
      match Gen.entryPoints.find? (fun e => e.name == name && e.recv == rv) with
      | some ep =>
        match ep.sites[variant]? with
        | none => if ep.sites.isEmpty then "0 returned" else "bad-op"
        | some site =>
          let gate := sevValue Gen.logsloglevel2Level arg site.gateSev
          let emit := sevValue Gen.logsloglevel2Level arg site.emitSev
          if !site.gated || Gen.enabled g L gate then
            match Gen.terminate g emit with
            | .continue => "1 returned"
            | .panic => "1 panic"
            | .exit c => "1 exit " ++ toString (exitStatus c)
          else "0 returned"
      | none => "bad-op"
    | _, _, _, _, _ => "bad-op"
  | _ => "bad-op"

end Logg.Drive.C12
