/- Line-protocol driver for C19 (PrintCtx buffer API). Two independent buffers are driven:
   `P` (compared with PrintCtx) and `B` (compared with bytes.Buffer). -/
import Logg.Model.Buffer

namespace Logg.Drive.C19
open Logg

def showPanic : BufPanic → String
  | .truncate => "truncate" | .growNegative => "grow-negative" | .tooLarge => "too-large"
  | .negativeRead => "negative-read" | .invalidWriteCount => "invalid-write-count" | .runtime => "runtime"

def showRes : BufRes → String
  | .unit => "ok"
  | .n k => "n=" ++ toString k
  | .nErr k e => "n=" ++ toString k ++ " err=" ++ e
  | .bytes p => "b=" ++ toHex p
  | .bytesErr p e => "b=" ++ toHex p ++ " err=" ++ e
  | .byteErr c e => "c=" ++ toString c.toNat ++ " err=" ++ e
  | .rune r sz e => "r=" ++ toString r ++ " size=" ++ toString sz ++ " err=" ++ e
  | .err e => "err=" ++ e
  | .panic p => "panic=" ++ showPanic p

def parseStep (t : String) : Option (Bytes × ReadErr) :=
  match t.splitOn ":" with
  | [h, e] => do
    let bs ← ofHex h
    let e ← (if e == "n" then some ReadErr.none else if e == "e" then some .eof else if e == "o" then some .other
             else if e == "g" then some .negative else none)
    pure (bs, e)
  | _ => none

def parseOp (toks : List String) : Option BufOp :=
  match toks with
  | ["write", h] => (ofHex h).map .write
  | ["writestring", h] => (ofHex h).map .writeString
  | ["writebyte", n] => n.toNat?.map fun n => .writeByte n.toUInt8
  | ["writerune", r] => r.toInt?.map .writeRune
  | ["read", n] => n.toNat?.map .read
  | ["readbyte"] => some .readByte
  | ["readrune"] => some .readRune
  | ["unreadbyte"] => some .unreadByte
  | ["unreadrune"] => some .unreadRune
  | ["next", n] => n.toInt?.map .next
  | ["readbytes", d] => d.toNat?.map fun d => .readBytes d.toUInt8
  | ["readstring", d] => d.toNat?.map fun d => .readString d.toUInt8
  | "readfrom" :: steps => (steps.mapM parseStep).map .readFrom
  | ["writeto", a, f] => do let a ← a.toInt?; let f ← parseBool f; pure (.writeTo a f)
  | ["truncate", n] => n.toInt?.map .truncate
  | ["grow", n] => n.toInt?.map .grow
  | ["reset"] => some .reset
  | ["len"] => some .len
  | ["bytes"] => some .bytes
  | ["string"] => some .string
  | _ => none

def parseCaps (t : String) : Option (List Nat) :=
  if t.startsWith "c=" then
    let r := (t.drop 2).toString
    if r.isEmpty then some [] else (r.splitOn ",").mapM String.toNat?
  else none

def step (s : Buf) (toks : List String) : Buf × String :=
  match toks with
  | ["new", h, cap, isnil] =>
    match ofHex h, cap.toNat?, parseBool isnil with
    | some d, some c, some z => ({ data := d, cap := c, isNil := z }, "ok")
    | _, _, _ => (s, "bad-op")
  | "op" :: rest =>
    match rest.getLast? with
    | some capTok =>
      match parseCaps capTok, parseOp rest.dropLast with
      | some caps, some op =>
        let (s', r) := bufStep s op caps
        (s', showRes r ++ " ; len=" ++ toString s'.len ++ " s=" ++ toHex s'.unread)
      | _, _ => (s, "bad-op")
    | none => (s, "bad-op")
  | _ => (s, "bad-op")

end Logg.Drive.C19
