/- Line-protocol driver for C07 (attribute assembly, order, precedence). -/
import Logg.Model.Attrs

namespace Logg.Drive.C07
open Logg

def parseKVs (s : String) : Option (List KV) :=
  if s.isEmpty then some []
  else (s.splitOn ",").mapM fun t =>
    match t.splitOn ":" with
    | [k, v] => do let k ← ofHex k; let v ← v.toNat?; pure { key := k, vid := v }
    | _ => none

def showKVs (xs : List KV) : String :=
  if xs.isEmpty then "-" else ",".intercalate (xs.map fun x => toHex x.key ++ ":" ++ toString x.vid)

def field (pfx : String) (t : String) : Option String :=
  if t.startsWith pfx then some (t.drop pfx.length).toString else none

def step (toks : List String) : String :=
  match toks with
  | ["rec", flags, nctx, c, h, a] =>
    match flags.toNat?, nctx.toNat?, (field "c=" c).bind parseKVs, field "h=" h, (field "a=" a).bind parseKVs with
    | some flags, some nctx, some ctx, some h, some args =>
      match (h.splitOn "/").mapM parseKVs with
      | some chain => showKVs (emitAttrs (collect { flags := flags } nctx ctx chain args))
      | none => "bad-op"
    | _, _, _, _, _ => "bad-op"
  | _ => "bad-op"

end Logg.Drive.C07
