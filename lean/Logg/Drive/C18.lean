/- Line-protocol driver for C18 (checkpath). The implementation iterates a Go map, so its answer is
   accepted iff it is the model's answer for SOME visiting order of the table. -/
import Logg.Model.Path

namespace Logg.Drive.C18
open Logg

def insertions {α} (x : α) : List α → List (List α)
  | [] => [[x]]
  | y :: ys => (x :: y :: ys) :: (insertions x ys).map (y :: ·)

def perms {α} : List α → List (List α)
  | [] => [[]]
  | x :: xs => (perms xs).flatMap (insertions x)

def field (pfx : String) (t : String) : Option String :=
  if t.startsWith pfx then some (t.drop pfx.length).toString else none

def parseTable (s : String) : Option (List (Bytes × Bytes)) :=
  if s.isEmpty then some []
  else (s.splitOn ",").mapM fun e =>
    match e.splitOn ":" with
    | [k, v] => do let k ← ofHex k; let v ← ofHex v; pure (k, v)
    | _ => none

def parseRules (s : String) : Option (List RxRule) :=
  if s.isEmpty then some []
  else (s.splitOn ";").mapM fun e =>
    match e.splitOn ":" with
    | ["lit", p, r] => do let p ← ofHex p; let r ← ofHex r; pure (.lit p r)
    | ["vol", r] => (ofHex r).map .volumes
    | _ => none

def step (toks : List String) : String :=
  match toks with
  | ["q", flags, t, r, rel, f, got] =>
    match flags.toNat?, (field "t=" t).bind parseTable, (field "r=" r).bind parseRules, field "rel=" rel,
          (field "f=" f).bind ofHex, field "got=" got with
    | some flags, some tbl, some rx, some rel, some file, some got =>
      match (if rel == "-" then some [] else ofHex rel), (got.splitOn ",").mapM ofHex with
      | some rel, some gots =>
        let answers := ((perms tbl).map fun σ => checkpath flags σ rx rel file).eraseDups
        if gots.all (answers.contains ·) then "ok"
        else "mismatch model=" ++ ",".intercalate (answers.map toHex)
      | _, _ => "bad-op"
    | _, _, _, _, _, _ => "bad-op"
  | _ => "bad-op"

end Logg.Drive.C18
