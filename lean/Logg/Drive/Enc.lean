/- Line-protocol driver for the encoder model (used by C02, C04, C05, C06, C09). -/
import Logg.Model.Encoder
import Logg.Model.Layout
import Logg.Model.IsPrint
import Logg.Bridge.Registry

namespace Logg.Drive.Enc
open Logg

def hexList (s : String) : Option (List Bytes) :=
  if s.isEmpty then some [] else (s.splitOn ",").mapM ofHex

def parseScalar (t : String) : Option Val :=
  match t.splitOn ":" with
  | ["N"] => some .nil
  | ["S", h] => (ofHex h).map .str
  | ["B", b] => (parseBool b).map .bool
  | ["I", i] => i.toInt?.map .int
  | ["U", n] => n.toNat?.map .uint
  | ["F", h] => (ofHex h).map .float
  | ["C", re, im] => do let re ← ofHex re; let im ← ofHex im; pure (.complex re im)
  | ["D", h] => (ofHex h).map .dur
  | ["T", h] => (ofHex h).map .time
  | ["TS", h] => (ofHex h).map .tstamp
  | ["E", h] => (ofHex h).map .err
  | ["Y", h] => (ofHex h).map .bytes
  | ["X", h] => (ofHex h).map .fallback
  | ["M", t, fb] => do let t ← ofHex t; let fb ← ofHex fb; pure (.textm t fb)
  | ["SS", l] => (hexList l).map .strs
  | ["BS", l] => (if l.isEmpty then some [] else (l.splitOn ",").mapM parseBool).map .bools
  | ["IS", l] => (if l.isEmpty then some [] else (l.splitOn ",").mapM String.toInt?).map .ints
  | ["US", l] => (if l.isEmpty then some [] else (l.splitOn ",").mapM String.toNat?).map .uints
  | ["FS", l] => (hexList l).map .floats
  | ["DS", l] => (hexList l).map .durs
  | ["TL", l] => (hexList l).map .times
  | ["CS", l] =>
    (if l.isEmpty then some [] else (l.splitOn ",").mapM fun p =>
      match p.splitOn "/" with
      | [re, im] => do let re ← ofHex re; let im ← ofHex im; pure (re, im)
      | _ => none).map .complexes
  | _ => none

/-- attrs := ( "_" | "K:<keyhex>:<g>" value )* until ")" or end; value := scalar | "(" attrs ")" -/
def parseAttrs : (fuel : Nat) → List String → Option (List Attr × List String)
  | 0, _ => none
  | _ + 1, [] => some ([], [])
  | _ + 1, ")" :: rest => some ([], ")" :: rest)
  | fuel + 1, "_" :: rest => do
      let (as, r) ← parseAttrs fuel rest
      pure (none :: as, r)
  | fuel + 1, k :: rest =>
    match k.splitOn ":" with
    | ["K", kh, g] => do
      let key ← ofHex kh
      let isG ← parseBool g
      match rest with
      | "(" :: r1 => do
        let (items, r2) ← parseAttrs fuel r1
        match r2 with
        | ")" :: r3 => do
          let (as, r4) ← parseAttrs fuel r3
          pure (some (key, isG, .group items) :: as, r4)
        | _ => none
      | v :: r1 => do
        let val ← parseScalar v
        let (as, r2) ← parseAttrs fuel r1
        pure (some (key, isG, val) :: as, r2)
      | [] => none
    | _ => none

def presentation (reg : Registry) (tagw : Int) (minw : Nat) : Presentation :=
  { reg := reg, tagWidth := tagw, minWidth := minw, colors := reg.colors }

/-- `reg` is the level registry as the C17 lines of the same stream have left it -/
def step (reg : Registry) (toks : List String) : String :=
  match toks with
  | f :: lvl :: ts :: name :: msg :: caller :: tagw :: minw :: attrs =>
    let fmt? := if f == "j" then some Fmt.json else if f == "l" then some Fmt.logfmt else if f == "c" then some Fmt.color else none
    let caller? : Option (Option (Bytes × Int × Bytes × Bytes)) :=
      if caller == "-" then some none
      else match caller.splitOn ":" with
        | [a, l, fn, fs] => do let a ← ofHex a; let l ← l.toInt?; let fn ← ofHex fn; let fs ← ofHex fs; pure (some (a, l, fn, fs))
        | _ => none
    match fmt?, lvl.toInt?, ofHex ts, ofHex name, ofHex msg, caller?, tagw.toInt?, minw.toNat?, parseAttrs (attrs.length + 2) attrs with
    | some fmt, some lvl, some ts, some name, some msg, some caller, some tagw, some minw, some (as, []) =>
      match encodeRecord fmt isPrintTable (presentation reg tagw minw) 32
              { lvl := lvl, ts := ts, name := name, msg := msg, attrs := as, caller := caller } with
      | some out => toHex out
      | none => "out-of-domain"
    | _, _, _, _, _, _, _, _, _ => "bad-op"
  | _ => "bad-op"

/-- the same tokens as `step`: the colored record as it reads without escape sequences (Model/Layout) -/
def layoutStep (reg : Registry) (toks : List String) : String :=
  match toks with
  | _ :: lvl :: ts :: name :: msg :: caller :: tagw :: minw :: attrs =>
    let caller? : Option (Option (Bytes × Int × Bytes × Bytes)) :=
      if caller == "-" then some none
      else match caller.splitOn ":" with
        | [a, l, fn, fs] => do let a ← ofHex a; let l ← l.toInt?; let fn ← ofHex fn; let fs ← ofHex fs; pure (some (a, l, fn, fs))
        | _ => none
    match lvl.toInt?, ofHex ts, ofHex name, ofHex msg, caller?, tagw.toInt?, minw.toNat?, parseAttrs (attrs.length + 2) attrs with
    | some lvl, some ts, some name, some msg, some caller, some tagw, some minw, some (as, []) =>
      if lvl == Lv.always && isBlank msg then "out-of-domain"
      else match reg.shortTag lvl tagw with
        | some tag => toHex (colorLayout isPrintTable minw 32 tag { lvl := lvl, ts := ts, name := name, msg := msg, attrs := as, caller := caller })
        | none => "out-of-domain"
    | _, _, _, _, _, _, _, _ => "bad-op"
  | _ => "bad-op"

end Logg.Drive.Enc
