/- Line-protocol driver for C11 (format state machine), running the regenerated setters. -/
import Logg.Model.Format
import Logg.Gen.Decisions

namespace Logg.Drive.C11
open Logg

def parseBits (s : String) : Option (List Bool) :=
  s.toList.mapM fun c => if c == '1' then some true else if c == '0' then some false else none

def applyOpt (s : ModeBits) (tok : String) : Option ModeBits :=
  match tok.toList with
  | 'j' :: rest => (parseBits (String.ofList rest)).map fun bs => Gen.setJSONMode s.1 s.2 bs
  | 'c' :: rest => (parseBits (String.ofList rest)).map fun bs => Gen.setColorMode s.1 s.2 bs
  | _ => none

def shape (s : ModeBits) : String :=
  let m := Gen.setentryMode s.1 s.2
  if m.1 then "json" else if !m.2 then "color" else "logfmt"

def step (st : List ModeBits) (toks : List String) : List ModeBits × String :=
  match toks with
  | ["reset"] => ([(false, true), (false, true), (false, true)], "ok")
  | "set" :: k :: opt :: [] =>
    match k.toNat? with
    | some k =>
      match st[k]? with
      | some s => match applyOpt s opt with
        | some s' => (st.set k s', "ok")
        | none => (st, "bad-op")
      | none => (st, "bad-op")
    | none => (st, "bad-op")
  | "child" :: k :: opts =>   -- With*(…) or New(name, opts…): a child starting with the parent's bits
    match k.toNat? with
    | some k =>
      match st[k]? with
      | some s =>
        match opts.foldlM applyOpt s with
        | some s' => (st ++ [s'], toString st.length)
        | none => (st, "bad-op")
      | none => (st, "bad-op")
    | none => (st, "bad-op")
  | ["probe", k] =>
    match k.toNat? with
    | some k => match st[k]? with
      | some s => (st, boolStr s.1 ++ " " ++ boolStr s.2 ++ " " ++ shape s)
      | none => (st, "bad-op")
    | none => (st, "bad-op")
  | _ => (st, "bad-op")

end Logg.Drive.C11
