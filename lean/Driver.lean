/-
  driver — one operation per line in, one canonical observation per line out.
  `lake exe driver < ops.txt > model.txt`. Core Lean only (no Mathlib), so it links.
-/
import Logg.Drive.C01
import Logg.Drive.C02
import Logg.Drive.C03
import Logg.Drive.C07
import Logg.Drive.C10
import Logg.Drive.C11
import Logg.Drive.C12
import Logg.Drive.C14
import Logg.Drive.C15
import Logg.Drive.C16
import Logg.Drive.C17
import Logg.Drive.C18
import Logg.Drive.C19
import Logg.Drive.C20
import Logg.Drive.Enc

open Logg

structure DriverState where
  c01 : GateState := { g := {}, levels := [] }
  c11 : List ModeBits := []
  c10 : Tree := []
  c03 : Drive.C03.St := {}
  c13 : Drive.C03.St := {}
  c12 : List (Int × Int) := []
  c17 : Registry := Bridge.genRegistry
  c16 : Drive.C16.St := {}
  c19p : Buf := { data := [], cap := 0 }
  c19b : Buf := { data := [], cap := 0 }

def dispatch (st : DriverState) (line : String) : DriverState × String :=
  match (line.splitOn " ").filter (· ≠ "") with
  | "C01" :: rest => let (s, o) := Drive.C01.step st.c01 rest; ({ st with c01 := s }, o)
  | "C02" :: rest => (st, Drive.C02.step st.c17 rest)
  | "C03" :: rest => let (s, o) := Drive.C03.step st.c03 rest; ({ st with c03 := s }, o)
  | "C13" :: rest => let (s, o) := Drive.C03.step st.c13 rest; ({ st with c13 := s }, o)
  | "C07" :: rest => (st, Drive.C07.step rest)
  | "C10" :: rest => let (s, o) := Drive.C10.step st.c10 rest; ({ st with c10 := s }, o)
  | "C11" :: rest => let (s, o) := Drive.C11.step st.c11 rest; ({ st with c11 := s }, o)
  | "C12" :: rest => let (s, o) := Drive.C12.step st.c12 rest; ({ st with c12 := s }, o)
  | "C14" :: rest => (st, Drive.C14.step rest)
  | "C15" :: rest => (st, Drive.C15.step st.c17 rest)
  | "C16" :: rest => let (s, o) := Drive.C16.step st.c16 rest; ({ st with c16 := s }, o)
  | "C17" :: rest => let (s, o) := Drive.C17.step st.c17 rest; ({ st with c17 := s }, o)
  | "C18" :: rest => (st, Drive.C18.step rest)
  | "C19P" :: rest => let (s, o) := Drive.C19.step st.c19p rest; ({ st with c19p := s }, o)
  | "C19B" :: rest => let (s, o) := Drive.C19.step st.c19b rest; ({ st with c19b := s }, o)
  | "C20" :: rest => (st, Drive.C20.step rest)
  | "ENC" :: rest => (st, Drive.Enc.step st.c17 rest)
  | "LAY" :: rest => (st, Drive.Enc.layoutStep st.c17 rest)
  | "Q" :: rest => (st, Drive.C17.stepQ rest)
  | _ => (st, "bad-op")

partial def loop (h : IO.FS.Stream) (out : IO.FS.Stream) (st : DriverState) : IO Unit := do
  let line ← h.getLine
  if line.isEmpty then return ()
  let line := (line.dropRightWhile (fun c => c == '\n' || c == '\r'))
  let (st', o) := dispatch st line
  out.putStrLn o
  loop h out st'

def main : IO Unit := do
  let stdin ← IO.getStdin
  let stdout ← IO.getStdout
  loop stdin stdout {}
