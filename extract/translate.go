package main

// Mini-translator: a deliberately tiny subset of Go (loop-free decision functions over
// integers and booleans) to pure Lean expressions. Anything outside the subset is an
// error ("unrecognised"), never silently skipped.

import (
	"fmt"
	"go/ast"
	"go/token"
	"go/types"
	"strings"
)

type fnCfg struct {
	leanName string
	binders  string            // Lean binders, e.g. "(g : Globals) (level testingLevel : Int)"
	retType  string            // Lean result type
	env      map[string]string // Go expression text -> Lean term
	kind     map[string]string // Go expression text -> "int" | "nat" | "bool" | "map" | "list"   (for operators)
	endExpr  string            // value when control falls off the end (procedures)
	ignore   map[string]bool   // call expressions (by callee text) that are irrelevant side effects
	recv     string            // receiver name; `recv.f` becomes variable `recv_f`
	flagsNat bool
}

type translator struct {
	cfg  *fnCfg
	errs []string
	fset *token.FileSet
	cst  *constEnv
}

func (t *translator) fail(n ast.Node, format string, a ...any) string {
	pos := ""
	if n != nil && t.fset != nil {
		p := t.fset.Position(n.Pos())
		pos = fmt.Sprintf(" at %s:%d", shortPath(p.Filename), p.Line)
	}
	t.errs = append(t.errs, fmt.Sprintf(t.cfg.leanName+": "+format, a...)+pos)
	return "sorryUnrecognised"
}

func exprText(x ast.Expr) string { return types.ExprString(x) }

func (t *translator) varName(x ast.Expr) (string, bool) {
	switch v := x.(type) {
	case *ast.Ident:
		return v.Name, true
	case *ast.SelectorExpr:
		if id, ok := v.X.(*ast.Ident); ok && id.Name == t.cfg.recv && t.cfg.recv != "" {
			return id.Name + "_" + v.Sel.Name, true
		}
	}
	return "", false
}

// expr translates a Go expression to a Lean term.
func (t *translator) expr(x ast.Expr) string {
	txt := exprText(x)
	if l, ok := t.cfg.env[txt]; ok {
		return l
	}
	switch v := x.(type) {
	case *ast.ParenExpr:
		return "(" + t.expr(v.X) + ")"
	case *ast.BasicLit:
		if v.Kind == token.INT {
			return v.Value
		}
		if v.Kind == token.STRING {
			return v.Value
		}
	case *ast.Ident:
		switch v.Name {
		case "true", "false":
			return v.Name
		case "nil":
			return "none"
		}
		if n, ok := t.cst.ints[v.Name]; ok {
			return leanInt(n)
		}
		if s, ok := t.cst.strs[v.Name]; ok {
			return fmt.Sprintf("%q", s)
		}
		return v.Name
	case *ast.SelectorExpr:
		if n, ok := t.varName(v); ok {
			return n
		}
		if p, ok := v.X.(*ast.Ident); ok {
			if n, ok := t.cst.ints[p.Name+"."+v.Sel.Name]; ok {
				return leanInt(n)
			}
			if n, ok := externalConsts[p.Name+"."+v.Sel.Name]; ok {
				return leanInt(n)
			}
			if s, ok := t.cst.strs[p.Name+"."+v.Sel.Name]; ok {
				return fmt.Sprintf("%q", s)
			}
		}
	case *ast.UnaryExpr:
		switch v.Op {
		case token.NOT:
			return "(!" + t.expr(v.X) + ")"
		case token.SUB:
			return "(-" + t.expr(v.X) + ")"
		}
	case *ast.BinaryExpr:
		a, b := t.expr(v.X), t.expr(v.Y)
		switch v.Op {
		case token.LAND:
			return "(" + a + " && " + b + ")"
		case token.LOR:
			return "(" + a + " || " + b + ")"
		case token.EQL:
			return "(" + a + " == " + b + ")"
		case token.NEQ:
			return "(" + a + " != " + b + ")"
		case token.LSS:
			return "(decide (" + a + " < " + b + "))"
		case token.LEQ:
			return "(decide (" + a + " ≤ " + b + "))"
		case token.GTR:
			return "(decide (" + a + " > " + b + "))"
		case token.GEQ:
			return "(decide (" + a + " ≥ " + b + "))"
		case token.AND:
			return "(Nat.land " + a + " " + b + ")"
		case token.OR:
			return "(Nat.lor " + a + " " + b + ")"
		case token.ADD:
			return "(" + a + " + " + b + ")"
		case token.SUB:
			return "(" + a + " - " + b + ")"
		}
	case *ast.CallExpr:
		callee := exprText(v.Fun)
		switch callee {
		case "len":
			if len(v.Args) == 1 {
				return "(" + t.expr(v.Args[0]) + ").length"
			}
		case "IsAnyBitsSet":
			if len(v.Args) == 1 {
				return "(Nat.land g.flags " + t.expr(v.Args[0]) + " != 0)"
			}
		case "IsAllBitsSet":
			if len(v.Args) == 1 {
				return "(Nat.land g.flags " + t.expr(v.Args[0]) + " == " + t.expr(v.Args[0]) + ")"
			}
		}
		if l, ok := t.cfg.env[callee+"()"]; ok && len(v.Args) == 0 {
			return l
		}
		if l, ok := t.cfg.env[callee]; ok { // function symbol mapped to a Lean function
			args := []string{}
			for _, a := range v.Args {
				args = append(args, t.expr(a))
			}
			return "(" + l + " " + strings.Join(args, " ") + ")"
		}
		if len(v.Args) == 1 { // conversion such as Level(l), int(x)
			if id, ok := v.Fun.(*ast.Ident); ok {
				switch id.Name {
				case "Level", "int", "int64", "Flags":
					return t.expr(v.Args[0])
				}
			}
		}
	}
	return t.fail(x, "unrecognised expression %q", txt)
}

func leanInt(n int64) string {
	if n < 0 {
		return fmt.Sprintf("(%d)", n)
	}
	return fmt.Sprintf("%d", n)
}

// assignedVars lists variables assigned in a statement list (for loops).
func (t *translator) assignedVars(stmts []ast.Stmt) []string {
	seen := map[string]bool{}
	var out []string
	var walk func(s ast.Stmt)
	walk = func(s ast.Stmt) {
		switch v := s.(type) {
		case *ast.AssignStmt:
			for _, l := range v.Lhs {
				if n, ok := t.varName(l); ok && !seen[n] && n != "_" {
					seen[n] = true
					out = append(out, n)
				}
			}
		case *ast.IfStmt:
			for _, x := range v.Body.List {
				walk(x)
			}
			if v.Else != nil {
				walk(v.Else)
			}
		case *ast.BlockStmt:
			for _, x := range v.List {
				walk(x)
			}
		}
	}
	for _, s := range stmts {
		walk(s)
	}
	return out
}

// stmts translates a statement list followed by the continuation `rest` (a closure
// that yields the Lean term for "whatever comes after"), so that early returns work.
func (t *translator) stmts(list []ast.Stmt, rest func() string) string {
	if len(list) == 0 {
		return rest()
	}
	s := list[0]
	tail := func() string { return t.stmts(list[1:], rest) }
	switch v := s.(type) {
	case *ast.ReturnStmt:
		if len(v.Results) == 0 {
			return t.cfg.endExpr
		}
		if len(v.Results) == 1 {
			return t.expr(v.Results[0])
		}
		parts := []string{}
		for _, r := range v.Results {
			parts = append(parts, t.expr(r))
		}
		return "(" + strings.Join(parts, ", ") + ")"
	case *ast.EmptyStmt:
		return tail()
	case *ast.BlockStmt:
		return t.stmts(append(append([]ast.Stmt{}, v.List...), list[1:]...), rest)
	case *ast.DeclStmt:
		gd, ok := v.Decl.(*ast.GenDecl)
		if ok && gd.Tok == token.VAR {
			out := ""
			for _, sp := range gd.Specs {
				vs := sp.(*ast.ValueSpec)
				for j, n := range vs.Names {
					val := ""
					if j < len(vs.Values) {
						val = t.expr(vs.Values[j])
					} else {
						switch exprText(vs.Type) {
						case "bool":
							val = "false"
						case "string":
							val = "\"\""
						case "time.Time":
							val = "z" // placeholder overwritten before use in the functions translated here
						default:
							val = "0"
						}
					}
					out += "let " + n.Name + " := " + val + "\n"
				}
			}
			return out + tail()
		}
	case *ast.AssignStmt:
		if len(v.Lhs) == 1 && len(v.Rhs) == 1 {
			n, ok := t.varName(v.Lhs[0])
			if ok {
				if n == "_" {
					return tail()
				}
				return "let " + n + " := " + t.expr(v.Rhs[0]) + "\n" + tail()
			}
		}
		if len(v.Lhs) == len(v.Rhs) && len(v.Lhs) > 1 {
			out := ""
			for i := range v.Lhs {
				n, ok := t.varName(v.Lhs[i])
				if !ok {
					return t.fail(s, "unrecognised assignment target %q", exprText(v.Lhs[i]))
				}
				out += "let " + n + "' := " + t.expr(v.Rhs[i]) + "\n"
			}
			for i := range v.Lhs {
				n, _ := t.varName(v.Lhs[i])
				out += "let " + n + " := " + n + "'\n"
			}
			return out + tail()
		}
	case *ast.ExprStmt:
		if c, ok := v.X.(*ast.CallExpr); ok {
			callee := exprText(c.Fun)
			if t.cfg.ignore[callee] {
				return tail()
			}
			if callee == "panic" {
				return "Outcome.panic"
			}
			if callee == "os.Exit" && len(c.Args) == 1 {
				return "(Outcome.exit " + t.expr(c.Args[0]) + ")"
			}
			if l, ok := t.cfg.env["stmt:"+callee]; ok { // side effect modelled as state update text
				return l + "\n" + tail()
			}
		}
	case *ast.IfStmt:
		thenB := func() string { return t.stmts(v.Body.List, tail) }
		elseB := tail
		if v.Else != nil {
			switch e := v.Else.(type) {
			case *ast.BlockStmt:
				elseB = func() string { return t.stmts(e.List, tail) }
			case *ast.IfStmt:
				elseB = func() string { return t.stmts([]ast.Stmt{e}, tail) }
			}
		}
		if v.Init != nil {
			// comma-ok map lookup:  x, ok := m[k]; ok [&& extra]
			as, ok := v.Init.(*ast.AssignStmt)
			if ok && len(as.Lhs) == 2 && len(as.Rhs) == 1 {
				if ix, ok := as.Rhs[0].(*ast.IndexExpr); ok {
					okName := exprText(as.Lhs[1])
					valName := exprText(as.Lhs[0])
					if valName == "_" {
						valName = "_v"
					}
					cond := v.Cond
					extra := ""
					m, k := t.expr(ix.X), t.expr(ix.Index)
					if exprText(cond) == "!"+okName { // negated: the body runs when the key is absent
						return "match List.lookup " + k + " " + m + " with\n| some " + valName + " =>\n" + indent(elseB()) + "\n| none =>\n" + indent(thenB())
					}
					if be, ok := cond.(*ast.BinaryExpr); ok && be.Op == token.LAND && exprText(be.X) == okName {
						extra = t.expr(be.Y)
					} else if exprText(cond) != okName {
						return t.fail(s, "unrecognised comma-ok condition %q", exprText(cond))
					}
					some := thenB()
					if extra != "" {
						some = "if " + extra + " then\n" + indent(thenB()) + "\nelse\n" + indent(elseB())
					}
					return "match List.lookup " + k + " " + m + " with\n| some " + valName + " =>\n" + indent(some) + "\n| none =>\n" + indent(elseB())
				}
			}
			// plain short declaration before the condition
			if ok && len(as.Lhs) == 1 && len(as.Rhs) == 1 {
				n, ok2 := t.varName(as.Lhs[0])
				if ok2 {
					return "let " + n + " := " + t.expr(as.Rhs[0]) + "\nif " + t.expr(v.Cond) + " then\n" + indent(thenB()) + "\nelse\n" + indent(elseB())
				}
			}
			return t.fail(s, "unrecognised if-init %q", "…")
		}
		return "if " + t.expr(v.Cond) + " then\n" + indent(thenB()) + "\nelse\n" + indent(elseB())
	case *ast.SwitchStmt:
		if v.Init != nil {
			return t.fail(s, "switch with init")
		}
		tag := ""
		if v.Tag != nil {
			tag = t.expr(v.Tag)
		}
		var deflt *ast.CaseClause
		var cases []*ast.CaseClause
		for _, c := range v.Body.List {
			cc := c.(*ast.CaseClause)
			if cc.List == nil {
				deflt = cc
			} else {
				cases = append(cases, cc)
			}
		}
		var build func(i int) string
		build = func(i int) string {
			if i == len(cases) {
				if deflt != nil {
					return t.stmts(deflt.Body, tail)
				}
				return tail()
			}
			cc := cases[i]
			conds := []string{}
			for _, e := range cc.List {
				if tag != "" {
					conds = append(conds, "("+tag+" == "+t.expr(e)+")")
				} else {
					conds = append(conds, t.expr(e))
				}
			}
			return "if " + strings.Join(conds, " || ") + " then\n" + indent(t.stmts(cc.Body, tail)) + "\nelse\n" + indent(build(i+1))
		}
		return build(0)
	case *ast.RangeStmt:
		// for _, x := range xs { body assigning exactly one variable }  ==>  fold
		if v.Key != nil && exprText(v.Key) == "_" && v.Value != nil {
			vars := t.assignedVars(v.Body.List)
			if len(vars) == 1 {
				acc := vars[0]
				body := t.stmts(v.Body.List, func() string { return acc })
				return "let " + acc + " := List.foldl (fun " + acc + " " + exprText(v.Value) + " =>\n" + indent(body) + ") " + acc + " " + t.expr(v.X) + "\n" + tail()
			}
		}
	}
	return t.fail(s, "unrecognised statement %T", s)
}

func indent(s string) string {
	lines := strings.Split(s, "\n")
	for i := range lines {
		lines[i] = "  " + lines[i]
	}
	return strings.Join(lines, "\n")
}

// function translates a whole function body (or the given statement slice of it).
func (t *translator) function(body []ast.Stmt) string {
	term := t.stmts(body, func() string { return t.cfg.endExpr })
	return "def " + t.cfg.leanName + " " + t.cfg.binders + " : " + t.cfg.retType + " :=\n" + indent(term) + "\n"
}
