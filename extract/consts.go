package main

// Constant evaluation and composite-literal tables over go/ast (no type checker:
// the dependencies of the package cannot be imported offline in source mode, and the
// subset needed here is tiny).

import (
	"fmt"
	"go/ast"
	"go/token"
	"strconv"
)

// external constants the package refers to (log/slog levels, time units). These are
// part of the Go standard library contract and listed in the trusted base.
var externalConsts = map[string]int64{
	"logslog.LevelDebug": -4, "logslog.LevelInfo": 0, "logslog.LevelWarn": 4, "logslog.LevelError": 8,
	"time.Nanosecond": 1, "time.Microsecond": 1000, "time.Millisecond": 1000000,
	"time.Second": 1000000000, "time.Minute": 60000000000, "time.Hour": 3600000000000,
}

type constEnv struct {
	ints map[string]int64
	strs map[string]string
	errs []string
}

func (e *constEnv) fail(format string, a ...any) {
	e.errs = append(e.errs, fmt.Sprintf(format, a...))
}

// evalInt evaluates an integer constant expression; ok=false if not understood.
func (e *constEnv) evalInt(x ast.Expr, iota int64) (int64, bool) {
	switch v := x.(type) {
	case *ast.BasicLit:
		if v.Kind == token.INT {
			n, err := strconv.ParseInt(v.Value, 0, 64)
			return n, err == nil
		}
		if v.Kind == token.CHAR {
			r, _, _, err := strconv.UnquoteChar(v.Value[1:len(v.Value)-1], '\'')
			return int64(r), err == nil
		}
	case *ast.Ident:
		if v.Name == "iota" {
			return iota, true
		}
		n, ok := e.ints[v.Name]
		return n, ok
	case *ast.SelectorExpr:
		if p, ok := v.X.(*ast.Ident); ok {
			n, ok := e.ints[p.Name+"."+v.Sel.Name]
			if !ok {
				n, ok = externalConsts[p.Name+"."+v.Sel.Name]
			}
			return n, ok
		}
	case *ast.ParenExpr:
		return e.evalInt(v.X, iota)
	case *ast.UnaryExpr:
		n, ok := e.evalInt(v.X, iota)
		if !ok {
			return 0, false
		}
		switch v.Op {
		case token.SUB:
			return -n, true
		case token.ADD:
			return n, true
		case token.XOR:
			return ^n, true
		}
	case *ast.BinaryExpr:
		a, ok1 := e.evalInt(v.X, iota)
		b, ok2 := e.evalInt(v.Y, iota)
		if !ok1 || !ok2 {
			return 0, false
		}
		switch v.Op {
		case token.ADD:
			return a + b, true
		case token.SUB:
			return a - b, true
		case token.MUL:
			return a * b, true
		case token.QUO:
			if b == 0 {
				return 0, false
			}
			return a / b, true
		case token.SHL:
			return a << uint(b), true
		case token.SHR:
			return a >> uint(b), true
		case token.OR:
			return a | b, true
		case token.AND:
			return a & b, true
		case token.AND_NOT:
			return a &^ b, true
		case token.XOR:
			return a ^ b, true
		}
	case *ast.CallExpr: // conversions: Level(12), logslog.Level(-16), uint64(time.Second), Flags(0)
		if len(v.Args) == 1 {
			return e.evalInt(v.Args[0], iota)
		}
	}
	return 0, false
}

func (e *constEnv) evalStr(x ast.Expr) (string, bool) {
	switch v := x.(type) {
	case *ast.BasicLit:
		if v.Kind == token.STRING {
			s, err := strconv.Unquote(v.Value)
			return s, err == nil
		}
	case *ast.Ident:
		s, ok := e.strs[v.Name]
		return s, ok
	case *ast.SelectorExpr:
		if p, ok := v.X.(*ast.Ident); ok {
			s, ok := e.strs[p.Name+"."+v.Sel.Name]
			return s, ok
		}
	case *ast.ParenExpr:
		return e.evalStr(v.X)
	case *ast.BinaryExpr:
		if v.Op == token.ADD {
			a, ok1 := e.evalStr(v.X)
			b, ok2 := e.evalStr(v.Y)
			return a + b, ok1 && ok2
		}
	}
	return "", false
}

// loadConsts walks every const block of the files (in the order given) and records
// integer and string constants, with iota and implicit repetition. prefix is
// prepended (e.g. "color.") for constants of another package.
func (e *constEnv) loadConsts(files []*ast.File, prefix string) {
	for _, f := range files {
		for _, d := range f.Decls {
			gd, ok := d.(*ast.GenDecl)
			if !ok || gd.Tok != token.CONST {
				continue
			}
			var last []ast.Expr
			for i, sp := range gd.Specs {
				vs := sp.(*ast.ValueSpec)
				vals := vs.Values
				if len(vals) == 0 {
					vals = last
				} else {
					last = vals
				}
				for j, name := range vs.Names {
					if j >= len(vals) {
						continue
					}
					if name.Name == "_" {
						continue
					}
					if n, ok := e.evalInt(vals[j], int64(i)); ok {
						e.ints[prefix+name.Name] = n
					} else if s, ok := e.evalStr(vals[j]); ok {
						e.strs[prefix+name.Name] = s
					}
				}
			}
		}
	}
}

// findVar returns the initialiser expression of a package-level var.
func findVar(files []*ast.File, name string) ast.Expr {
	for _, f := range files {
		for _, d := range f.Decls {
			gd, ok := d.(*ast.GenDecl)
			if !ok || gd.Tok != token.VAR {
				continue
			}
			for _, sp := range gd.Specs {
				vs := sp.(*ast.ValueSpec)
				for j, n := range vs.Names {
					if n.Name == name && j < len(vs.Values) {
						return vs.Values[j]
					}
				}
			}
		}
	}
	return nil
}

func findFunc(files []*ast.File, recv, name string) *ast.FuncDecl {
	for _, f := range files {
		for _, d := range f.Decls {
			fd, ok := d.(*ast.FuncDecl)
			if !ok || fd.Name.Name != name {
				continue
			}
			r := ""
			if fd.Recv != nil && len(fd.Recv.List) == 1 {
				t := fd.Recv.List[0].Type
				if st, ok := t.(*ast.StarExpr); ok {
					t = st.X
				}
				if id, ok := t.(*ast.Ident); ok {
					r = id.Name
				}
			}
			if r == recv {
				return fd
			}
		}
	}
	return nil
}
