package main

// Entry-point table: for every exported logging method of *Entry and every exported
// package-level logging function, a symbolic walk through the helpers (log1, logctx,
// logctxctx, vlogctx) down to the logContext call records: the severity that is gated on,
// the severity that is emitted, whether a gate exists, the getpc skip constant and the
// static chain of library frames between the user and the function that calls getpc.

import (
	"fmt"
	"go/ast"
	"go/token"
	"sort"
	"strings"
)

type sevExpr struct {
	kind string // "const" | "param" | "slog" | "unknown"
	n    int64
}

func (s sevExpr) lean() string {
	switch s.kind {
	case "const":
		return fmt.Sprintf("(Sev.const %s)", leanInt(s.n))
	case "param":
		return "Sev.param"
	case "slog":
		return "Sev.slogParam"
	}
	return "Sev.unknown"
}

type emitSite struct {
	gated   bool
	gateSev sevExpr
	emitSev sevExpr
	skip    int64
	skipOK  bool
	chain   int // library frames from the entry point down to the caller of getpc (inclusive)
	extra   bool // getpc's second argument is the logger's extraFrames
	same    bool // the gate is asked of the same logger value that emits
}

type epWalker struct {
	g     *gen
	sites []emitSite
	errs  []string
}

var helperNames = map[string]bool{"log1": true, "logctx": true, "logctxctx": true, "vlogctx": true}

// sev evaluates a severity expression under the substitution env.
func (w *epWalker) sev(x ast.Expr, env map[string]sevExpr) sevExpr {
	switch v := x.(type) {
	case *ast.Ident:
		if s, ok := env[v.Name]; ok {
			return s
		}
		if n, ok := w.g.cst.ints[v.Name]; ok {
			return sevExpr{"const", n}
		}
	case *ast.CallExpr:
		if exprText(v.Fun) == "logsloglevel2Level" && len(v.Args) == 1 {
			if s := w.sev(v.Args[0], env); s.kind == "param" {
				return sevExpr{"slog", 0}
			}
		}
	}
	return sevExpr{"unknown", 0}
}

type walkState struct {
	env     map[string]sevExpr
	ints    map[string]int64 // integer parameters (inc)
	gated   bool
	gateSev sevExpr
	gateOn  string
	skip    int64
	skipOK  bool
	extra   bool
	chain   int
}

func (w *epWalker) walkStmts(list []ast.Stmt, st walkState, depth int) {
	for _, s := range list {
		switch v := s.(type) {
		case *ast.AssignStmt:
			if len(v.Lhs) == 1 && len(v.Rhs) == 1 {
				if id, ok := v.Lhs[0].(*ast.Ident); ok {
					// pc := getpc(K, s.extraFrames)
					if c, ok := v.Rhs[0].(*ast.CallExpr); ok && exprText(c.Fun) == "getpc" && len(c.Args) == 2 {
						n, ok := w.evalInt(c.Args[0], st)
						st.skip, st.skipOK = n, ok
						st.extra = strings.HasSuffix(exprText(c.Args[1]), ".extraFrames")
						continue
					}
					sv := w.sev(v.Rhs[0], st.env)
					if sv.kind != "unknown" {
						ne := map[string]sevExpr{}
						for k, x := range st.env {
							ne[k] = x
						}
						ne[id.Name] = sv
						st.env = ne
					}
				}
			}
		case *ast.IfStmt:
			inner := st
			if c, ok := v.Cond.(*ast.CallExpr); ok {
				f := exprText(c.Fun)
				if strings.HasSuffix(f, ".EnabledContext") && len(c.Args) == 2 {
					inner.gated, inner.gateSev, inner.gateOn = true, w.sev(c.Args[1], st.env), strings.TrimSuffix(f, ".EnabledContext")
				} else if strings.HasSuffix(f, ".Enabled") && len(c.Args) == 1 {
					inner.gated, inner.gateSev, inner.gateOn = true, w.sev(c.Args[0], st.env), strings.TrimSuffix(f, ".Enabled")
				}
			}
			w.walkStmts(v.Body.List, inner, depth)
			if v.Else != nil {
				if b, ok := v.Else.(*ast.BlockStmt); ok {
					w.walkStmts(b.List, st, depth)
				}
			}
		case *ast.SwitchStmt:
			for _, c := range v.Body.List {
				w.walkStmts(c.(*ast.CaseClause).Body, st, depth)
			}
		case *ast.TypeSwitchStmt:
			// `switch s := defaultLog.(type)` : every clause must behave the same; walk the first
			// non-empty clause and require the others to be textually identical.
			var first []ast.Stmt
			firstTxt := ""
			for _, c := range v.Body.List {
				cc := c.(*ast.CaseClause)
				txt := stmtsText(cc.Body)
				if first == nil {
					first, firstTxt = cc.Body, txt
				} else if txt != firstTxt {
					w.errs = append(w.errs, "type switch clauses differ")
				}
			}
			w.walkStmts(first, st, depth)
		case *ast.ExprStmt:
			c, ok := v.X.(*ast.CallExpr)
			if !ok {
				continue
			}
			f := exprText(c.Fun)
			base := f
			if i := strings.LastIndex(f, "."); i >= 0 {
				base = f[i+1:]
			}
			switch {
			case base == "logContext" && len(c.Args) >= 4:
				w.sites = append(w.sites, emitSite{gated: st.gated, gateSev: st.gateSev, emitSev: w.sev(c.Args[1], st.env),
					skip: st.skip, skipOK: st.skipOK, chain: st.chain, extra: st.extra,
					same: st.gated && st.gateOn == strings.TrimSuffix(f, ".logContext")})
			case helperNames[base]:
				if depth > 4 {
					w.errs = append(w.errs, "helper recursion too deep")
					continue
				}
				recv := ""
				if base == "log1" {
					recv = "Entry"
				}
				fd := findFunc(w.g.files, recv, base)
				if fd == nil || fd.Body == nil {
					w.errs = append(w.errs, "helper "+base+" not found")
					continue
				}
				ns := walkState{env: map[string]sevExpr{}, ints: map[string]int64{}, gated: st.gated, gateSev: st.gateSev, gateOn: st.gateOn, chain: st.chain + 1}
				// bind parameters positionally
				i := 0
				for _, fld := range fd.Type.Params.List {
					for _, nm := range fld.Names {
						if i < len(c.Args) {
							if sv := w.sev(c.Args[i], st.env); sv.kind != "unknown" {
								ns.env[nm.Name] = sv
							}
							if n, ok := w.evalInt(c.Args[i], st); ok {
								ns.ints[nm.Name] = n
							}
						}
						i++
					}
				}
				w.walkStmts(fd.Body.List, ns, depth+1)
			}
		case *ast.ReturnStmt, *ast.DeclStmt:
		}
	}
}

func stmtsText(list []ast.Stmt) string {
	var sb strings.Builder
	for _, s := range list {
		ast.Inspect(s, func(n ast.Node) bool {
			switch v := n.(type) {
			case *ast.Ident:
				sb.WriteString(v.Name + " ")
			case *ast.BasicLit:
				sb.WriteString(v.Value + " ")
			}
			return true
		})
		sb.WriteString(";")
	}
	return sb.String()
}

func (w *epWalker) evalInt(x ast.Expr, st walkState) (int64, bool) {
	switch v := x.(type) {
	case *ast.Ident:
		if n, ok := st.ints[v.Name]; ok {
			return n, true
		}
	case *ast.BinaryExpr:
		a, ok1 := w.evalInt(v.X, st)
		b, ok2 := w.evalInt(v.Y, st)
		if ok1 && ok2 {
			switch v.Op {
			case token.ADD:
				return a + b, true
			case token.SUB:
				return a - b, true
			}
		}
		return 0, false
	}
	return w.g.cst.evalInt(x, 0)
}

// logging entry points: exported, first results none or error, take (msg string, args ...any)
// or similar; we select by name instead of by guessing.
var verbNames = []string{"Panic", "Fatal", "Error", "Warn", "Info", "Debug", "Trace", "Print", "OK", "Success", "Fail", "Println", "Verbose"}

func (g *gen) entryPointsFile() {
	w := &g.entries
	w.WriteString("-- GENERATED by /verif/extract (symbolic walk of the entry points) from the current /repo source. Do not edit.\n")
	w.WriteString("import Logg.Model.Globals\n\nnamespace Logg.Gen\nopen Logg\n\n")
	names := map[string]bool{}
	for _, v := range verbNames {
		names[v] = true
		names[v+"Context"] = true
	}
	for _, v := range []string{"LogAttrs", "Logit", "Log", "Infof", "Warnf", "Errorf"} {
		names[v] = true
	}
	type row struct {
		name string
		recv string
		fd   *ast.FuncDecl
	}
	var rows []row
	for _, f := range g.files {
		for _, d := range f.Decls {
			fd, ok := d.(*ast.FuncDecl)
			if !ok || fd.Body == nil || !names[fd.Name.Name] {
				continue
			}
			recv := ""
			if fd.Recv != nil && len(fd.Recv.List) == 1 {
				t := fd.Recv.List[0].Type
				if st, ok := t.(*ast.StarExpr); ok {
					t = st.X
				}
				if id, ok := t.(*ast.Ident); ok {
					recv = id.Name
				}
			}
			if recv != "" && recv != "Entry" {
				continue
			}
			rows = append(rows, row{fd.Name.Name, recv, fd})
		}
	}
	sort.Slice(rows, func(i, j int) bool {
		if rows[i].recv != rows[j].recv {
			return rows[i].recv > rows[j].recv
		}
		return rows[i].name < rows[j].name
	})
	var lines []string
	for _, r := range rows {
		ew := &epWalker{g: g}
		st := walkState{env: map[string]sevExpr{}, ints: map[string]int64{}, chain: 1}
		for _, fld := range r.fd.Type.Params.List {
			ty := exprText(fld.Type)
			for _, nm := range fld.Names {
				if ty == "Level" || ty == "logslog.Level" {
					st.env[nm.Name] = sevExpr{"param", 0}
				}
			}
		}
		ew.walkStmts(r.fd.Body.List, st, 0)
		for _, e := range ew.errs {
			g.fail("entry point %s.%s: %s", r.recv, r.name, e)
		}
		kind := "EpRecv.pkg"
		if r.recv == "Entry" {
			kind = "EpRecv.logger"
		}
		var sites []string
		for _, s := range ew.sites {
			if !s.skipOK {
				g.fail("entry point %s.%s: getpc skip is not a constant", r.recv, r.name)
			}
			sites = append(sites, fmt.Sprintf("{ gated := %v, gateSev := %s, emitSev := %s, skip := %d, chain := %d, usesExtra := %v, sameLogger := %v }",
				s.gated, s.gateSev.lean(), s.emitSev.lean(), s.skip, s.chain, s.extra, s.same))
		}
		lines = append(lines, fmt.Sprintf("  { name := %q, recv := %s, sites := [%s] }", r.name, kind, strings.Join(sites, ", ")))
	}
	w.WriteString("def entryPoints : List EntryPoint := [\n" + strings.Join(lines, ",\n") + "]\n\n")

	// adapter rows: Handle's runtime.Callers(3+1+ei) and handlerWriter.Write's getpc(4, …)
	handleSkip, bridgeSkip := int64(-1), int64(-1)
	if fd := findFunc(g.files, "handler4LogSlog", "Handle"); fd != nil {
		ast.Inspect(fd, func(n ast.Node) bool {
			if c, ok := n.(*ast.CallExpr); ok && exprText(c.Fun) == "runtime.Callers" && len(c.Args) == 2 {
				if be, ok := c.Args[0].(*ast.BinaryExpr); ok && exprText(be.Y) == "ei" {
					if v, ok := g.cst.evalInt(be.X, 0); ok {
						handleSkip = v
					}
				}
			}
			return true
		})
	}
	if fd := findFunc(g.files, "handlerWriter", "Write"); fd != nil {
		ast.Inspect(fd, func(n ast.Node) bool {
			if c, ok := n.(*ast.CallExpr); ok && exprText(c.Fun) == "getpc" && len(c.Args) == 2 {
				if v, ok := g.cst.evalInt(c.Args[0], 0); ok {
					bridgeSkip = v
				}
			}
			return true
		})
	}
	if handleSkip < 0 {
		g.fail("handler4LogSlog.Handle: runtime.Callers(k+ei) not found")
	}
	if bridgeSkip < 0 {
		g.fail("handlerWriter.Write: getpc(k, …) not found")
	}
	fmt.Fprintf(w, "/-- `runtime.Callers(handleCallersSkip + skip)` in handler4LogSlog.Handle. -/\ndef handleCallersSkip : Nat := %d\n", handleSkip)
	fmt.Fprintf(w, "/-- `getpc(bridgeGetpcSkip, extra)` in handlerWriter.Write. -/\ndef bridgeGetpcSkip : Nat := %d\n", bridgeSkip)
	// getpc itself: runtime.Callers(skip+extra+1, …)
	getpcPlus := int64(-1)
	if fd := findFunc(g.files, "", "getpc"); fd != nil {
		ast.Inspect(fd, func(n ast.Node) bool {
			if c, ok := n.(*ast.CallExpr); ok && exprText(c.Fun) == "runtime.Callers" && len(c.Args) == 2 {
				if exprText(c.Args[0]) == "skip+extra+1" || exprText(c.Args[0]) == "skip + extra + 1" {
					getpcPlus = 1
				}
			}
			return true
		})
	}
	if getpcPlus < 0 {
		g.fail("getpc: runtime.Callers(skip+extra+1, …) not found")
	}
	fmt.Fprintf(w, "/-- getpc calls `runtime.Callers(skip + extra + getpcPlus, …)`. -/\ndef getpcPlus : Nat := %d\n", getpcPlus)
	w.WriteString("\nend Logg.Gen\n")
}
