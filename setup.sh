#!/bin/bash
# Offline setup: builds the extractor, regenerates Logg/Gen from /repo, builds every Lean
# module (model, bridges, property theorems) and the driver executable.
set -e
cd "$(dirname "$0")"
export GOFLAGS=-mod=mod GOWORK=off GOPROXY=off GOSUMDB=off GOTOOLCHAIN=local
mkdir -p .work/bin
(cd extract && go build -o ../.work/bin/extract .)
.work/bin/extract -repo /repo -out lean/Logg/Gen || true
(cd lean && lake build)
cp /repo/go.sum harness/go.sum 2>/dev/null || true
(cd harness && go build -tags verif -o ../.work/bin/harness . )
echo "setup: ok"
